"""C11 -- the canonical chain stays consistent and hash-linked under any import or crash.

M  : spec/ChainImport.tla (+ ChainImportProp.tla): constant block tree (G-A1-A2-A3, G-B1-B2-B3, invalid X under A1, t1 shared by
     A1 and B1), InsertChain as the code's sequence of individual database writes, Crash after any write, Restart =
     loadLastState + repair, recovery = interrupted segment again + one further valid block.  Invariants at rest: CanonLinked,
     HeadStateAvailable, LookupsCanonical, InvalidNeverCanonical (Consistent), NotWedged, NoPrunedDispatch.  Confirmed defects
     are named deviations (known_c11.json), so TLC searches past them.
G1 : every sequence of InsertChain calls (14 segments: in order, out of order, duplicated, competing, invalid) up to a depth;
G2 : `tlc -simulate` for longer sequences.
T  : the driver `chainimport` builds the tree as REAL blocks (solo engine), runs each sequence on a real core.BlockChain over a
     recording database, and for EVERY write of every call opens core.NewBlockChain on the frozen snapshot, observes the
     restarted chain, re-imports the interrupted call and one further block and observes again; a node that never crashed is
     the reference.  ChainImport_Mon (the verdict) judges every observation; ChainImport_Trace (conformance: write plan,
     observations after calls and after restarts) is the drift measure.
"""
import json
import os
import random
import vlib

M_CFG = """SPECIFICATION Spec
CONSTANTS
  MaxOffers = %d
  MaxCrash = %d
  Atomic = %s
  Ucon = %s
  GenMode = "none"
INVARIANT Consistent NotWedged %s
VIEW View
CHECK_DEADLOCK FALSE
"""

G_CFG = """SPECIFICATION Spec
CONSTANTS
  MaxOffers = %d
  MaxCrash = 0
  Atomic = FALSE
  Ucon = %s
  GenMode = "leaf"
CONSTRAINT Leaf
CHECK_DEADLOCK FALSE
"""


def refined_known(ctx):
    """The known list of C11 is findings/known_C11.json alone: its signatures say WHERE the crash fell.  Coarser C11 entries of
    the central known_findings.json (which this check cannot edit) would mask every crash inside a reorg, so they are dropped."""
    frag = os.path.join(vlib.VERIF, "findings", "known_C11.json")
    own = {k["signature"] for k in json.load(open(frag))} if os.path.exists(frag) else set()
    dropped = sorted(s for s in ctx.known if s not in own)
    ctx.known = {s: k for s, k in ctx.known.items() if s in own}
    if dropped:
        ctx.note("ignored %d coarser C11 entries of the central known_findings.json (superseded by findings/known_C11.json)" % len(dropped))


def known_for_model(ctx):
    out = []
    for sig in sorted(ctx.known):
        try:
            _, clause, disc = sig.split("/", 2)
        except ValueError:
            continue
        out.append({"clause": clause, "disc": disc.split("+")})
    return out or [{"clause": "-none-", "disc": ["-"]}]


def witnesses():
    behs = []
    wdir = os.path.join(vlib.VERIF, "findings")
    for fn in sorted(os.listdir(wdir)) if os.path.isdir(wdir) else []:
        if fn.startswith("C11_") and fn.endswith(".json"):
            behs += json.load(open(os.path.join(wdir, fn)))["behaviours"]
    return behs


def mcfg(offers, crashes, atomic, ucon):
    return M_CFG % (offers, crashes, atomic, "TRUE" if ucon else "FALSE", "" if ucon else "NoPrunedDispatch")


def wrap(h, ucon):
    return {"engine": "ucon", "offers": h} if ucon else h


def generate(ctx):
    quick = ctx.quick
    files = {"known_c11.json": json.dumps(known_for_model(ctx))}
    behs = witnesses()
    nw = len(behs)
    violated = None
    # M: solo engine and the engine with ucon's header dispatch (side-chain path)
    runs = [(4, 1, False), (3, 1, True)] if quick else [(5, 1, False), (4, 2, False), (4, 1, True), (3, 2, True)]
    for i, (offers, crashes, ucon) in enumerate(runs):
        m = ctx.tlc_must("ChainImport", mcfg(offers, crashes, "FALSE", ucon), files=files, timeout=3000,
                         name="M_design_%s_o%d_c%d" % ("ucon" if ucon else "solo", offers, crashes), coverage=(not quick and i == 0))
        for v in m.printed:
            if isinstance(v, dict) and v.get("kind") == "CEX":
                behs.append(wrap(v["h"], ucon))
                ctx.note("design-level counterexample for %s %s exported for replay" % (v.get("clause"), v.get("disc")))
        if i == 0:
            ctx.cov["exhaustive"] = m.ok
            ctx.cov["design_violation"] = m.violated
            if getattr(m, "zero_actions", None):
                ctx.cov["coverage_zero_actions"] = m.zero_actions
        else:
            ctx.cov["exhaustive"] = bool(ctx.cov["exhaustive"] and m.ok)
        violated = violated or m.violated
    ncex = len(behs) - nw
    # the proposed repair (one atomic batch for lookups, canonical hashes and head markers) leaves only the deviation with another
    # root cause (body stored before the header + HasBlock looking at the body only)
    other = [k for k in known_for_model(ctx) if "panic_in_recovery" in k["disc"]] or [{"clause": "-none-", "disc": ["-"]}]
    ok = True
    for ucon in (False, True):
        offers, crashes = (3, 1) if quick else (4, 2) if not ucon else (3, 2)
        f = ctx.tlc_must("ChainImport", mcfg(offers, crashes, "TRUE", ucon), name="M_repaired_%s" % ("ucon" if ucon else "solo"),
                         timeout=3000, files={"known_c11.json": json.dumps(other if ucon else [{"clause": "-none-", "disc": ["-"]}])})
        ok = ok and bool(f.ok)
        if not f.ok:
            ctx.note("the design with the proposed repair still has a deviation: %s" % f.violated)
    ctx.cov["repaired_design_holds"] = ok
    rnd = random.Random(ctx.seed)
    seqs = []
    for ucon in (False, True):
        tag = "ucon" if ucon else "solo"
        ustr = "TRUE" if ucon else "FALSE"
        # G1: bounded exhaustive sequences of calls
        g = {}
        for d in (1, 2, 3):
            r = ctx.tlc_must("ChainImport", G_CFG % (d, ustr), name="G1_%s_depth%d" % (tag, d), files=files, timeout=1500)
            g[d] = [v["h"] for v in r.printed if isinstance(v, dict) and v.get("kind") == "B"]
        part = list(g[1])
        rnd.shuffle(g[2])
        rnd.shuffle(g[3])
        if quick:
            part += g[2][:(90 if ucon else 120)] + g[3][:(45 if ucon else 90)]
        else:
            part += g[2] + g[3][:(1200 if ucon else 2744)]
        n1 = len(part)
        # G2: longer random sequences
        g2 = ctx.tlc_must("ChainImport", G_CFG % (5, ustr), name="G2_%s_simulate" % tag, files=files, timeout=1500,
                          simulate={"num": 80 if quick else 600}, depth=600)
        sim = [v["h"] for v in g2.printed if isinstance(v, dict) and v.get("kind") == "B"]
        sim = [json.loads(x) for x in sorted({json.dumps(b) for b in sim})]
        rnd.shuffle(sim)
        part += sim[:((30 if ucon else 40) if quick else (300 if ucon else 500))]
        ctx.note("%s engine: %d bounded-exhaustive, %d simulated sequences" % (tag, n1, len(part) - n1))
        seqs += [wrap(h, ucon) for h in part]
    behs += seqs
    ctx.note("behaviours: %d witnesses, %d design counterexamples, %d generated" % (nw, ncex, len(seqs)))
    return behs, violated


def judge(ctx, behs, conformance=True):
    bpath = ctx.path("behaviours.ndjson")
    vlib.write_ndjson(bpath, behs)
    trace = ctx.path("trace.ndjson")
    info = ctx.drive("chainimport", trace, behaviours=bpath, timeout=2400)
    ctx.cov["traces_validated_against_impl"] += len(behs)
    reorg_t, restarts, imports = set(), 0, 0
    last_by_t = {}
    with open(trace) as fh:
        for line in fh:
            if '"ev":"restart"' in line:
                restarts += 1
            elif '"ev":"import"' in line:
                imports += 1
                if '"mode":"reorg"' in line:
                    reorg_t.add(json.loads(line)["t"])
            if '"ev":"abort"' not in line and '"ev":"reset"' not in line:
                try:
                    t = int(line[line.rindex('"t":') + 4:].split(",")[0].split("}")[0])
                    last_by_t[t] = line[:200]
                except ValueError:
                    pass
    ctx.cov["evaluations"] += restarts + imports
    ctx.cov["crash_points_restarted"] = ctx.cov.get("crash_points_restarted", 0) + restarts
    ctx.cov["distinct_nontrivial"] += len({json.dumps(behs[t]) for t in reorg_t if t < len(behs)})
    # "restarting on the same database succeeds" / "not wedged": the process dying (logging.Crit = os.Exit; Go panics of the
    # recovery are recorded by the driver itself) while restarting or while importing the blocks again is a violation
    for a in info["aborts"]:
        last = last_by_t.get(a["b"], "")
        if '"ev":"restarting"' in last:
            sig = "C11/RestartSucceeds/process_abort"
        elif '"ev":"recovering"' in last:
            sig = "C11/NotWedged/process_abort_in_recovery"
        else:
            ctx.note("driver aborted outside a restart in behaviour %s: %s" % (a["b"], a["msg"]))
            continue
        ctx.report(sig, vlib.save_behaviour_replay(ctx, sig, bpath, a["b"], {}), {"abort": a, "last_event": last})
    result, _ = vlib.monitor(ctx, "ChainImport_Mon", "ChainImport_Mon.cfg", trace, behaviours=bpath,
                             replay_meta={"driver": "chainimport"}, timeout=2400)
    if conformance:
        conf = ctx.tlc("ChainImport_Trace", "ChainImport_Trace.cfg", name="Conf", files={"trace.ndjson": trace,
                       "known_c11.json": json.dumps(known_for_model(ctx))}, workers=1, timeout=2400, count=False, xss="256m")
        acc = [v for v in conf.printed if isinstance(v, dict) and v.get("kind") == "ACCEPTED"]
        rej = [v for v in conf.printed if isinstance(v, dict) and v.get("kind") == "REJECTED"]
        if acc:
            ctx.cov["conformance"] = "accepted %d events" % acc[0]["events"]
        else:
            ctx.cov["drift_events"] += 1
            ctx.cov["conformance"] = "rejected: %s" % (json.dumps(rej[0])[:600] if rej else (conf.error or conf.violated or "no verdict"))
            print("DRIFT: property=C11 the real BlockChain left the design layer of ChainImport.tla: %s" % ctx.cov["conformance"],
                  flush=True)
    return trace, result


def selftest(ctx, trace):
    """Binding self-test: a corrupted observation must be rejected by the conformance spec exactly there and reported by the
    monitor."""
    ev = vlib.read_ndjson(trace)
    bad = None
    for i, e in enumerate(ev):
        if e.get("ev") == "restart" and e.get("ok") and e["obs"]["hn"] >= 1:
            e["obs"]["canon"][1] = "-"
            bad = i + 1
            break
    if bad is None:
        raise vlib.Undecided("self-test: no restart event")
    p = ctx.path("trace_corrupt.ndjson")
    vlib.write_ndjson(p, ev[:bad + 2])
    conf = ctx.tlc("ChainImport_Trace", "ChainImport_Trace.cfg", name="Conf_selftest", files={"trace.ndjson": p,
                   "known_c11.json": json.dumps(known_for_model(ctx))}, workers=1, timeout=600, count=False, xss="256m")
    rej = [v for v in conf.printed if isinstance(v, dict) and v.get("kind") == "REJECTED"]
    ok = bool(rej) and rej[0]["line"] == bad
    mon = ctx.tlc("ChainImport_Mon", "ChainImport_Mon.cfg", name="Mon_selftest", files={"trace.ndjson": p, "known.json": "[]"},
                  workers=1, timeout=600, count=False, xss="256m", check_deadlock=False)
    res = [v for v in mon.printed if isinstance(v, dict) and v.get("kind") == "RESULT"]
    seen = bool(res) and any(v[0] == "CanonLinked" and "missing" in v[1] and v[2] == bad for v in res[0]["viol"])
    ctx.cov["binding_selftest"] = "removed canonical entry at line %d: conformance rejected at line %s, monitor reported: %s" % (
        bad, rej[0]["line"] if rej else None, seen)
    if not (ok and seen):
        raise vlib.Undecided("trace-checker self-test failed: corrupted observation not noticed")


def run(ctx):
    ctx.cov["rule"] = ("behaviours = stored witnesses + design counterexamples + every single call + bounded-exhaustive call "
                       "sequences (depth 2, 3; sampled by seed in the quick tier) + simulated sequences of 5 calls; for each call "
                       "EVERY database write is a crash point with restart, recovery and comparison with a node that never "
                       "crashed; non-trivial = the sequence contains a reorganisation; distinct by JSON")
    ctx.assumptions += ["two engines: solo (no header rules: competing blocks become head in import order; the side-chain path is "
                        "not reachable, NoPrunedDispatch) and `ucon-like` = solo with the header dispatch of ucon's verifyHeader "
                        "(ErrUnknownAncestor, ErrExistCanonical, ErrOlderBlockTime, ErrFutureBlock; no seal rules), implementing "
                        "consensus.Ucon so that insertSidechain / verifyAllSideChainBlocks / the side-chain re-import run as with "
                        "the real engine (harness/drive/chainimport/uconlike.go)",
                        "tree: G-A1(t1)-A2(t2)-A3(t4)-A4, G-B1(t1)-B2(t4)-B3(t3)-B4 (t1 shared at the same height, t4 at different heights); "
                        "invalid: X (child of A1) and S2 (child of B1) wrong state "
                        "root, R3 (child of B2) wrong receipt root, U4 (child of B3) wrong gas used, T2 (child of B1, with valid-"
                        "looking descendants T3, T4) and V4 (child of B3) header.TxHash not matching the body; further blocks F_b "
                        "without transactions",
                        "one crash per history in the real runs (every write of every call); two crashes only at design level",
                        "the database is an in-memory youdb.Database; a crash is a frozen copy of the key/value map after a "
                        "Put/Delete/Batch.Write (batches are atomic)"]
    refined_known(ctx)
    behs, violated = generate(ctx)
    for b in behs[:2] + behs[-2:]:
        ctx.sample(b)
    trace, result = judge(ctx, behs)
    fired = result.get("fired") or {}
    zero = [k for k, v in fired.items() if not v]
    if zero:
        raise vlib.Undecided("vacuous monitor antecedents: %s" % zero)
    if not ctx.quick:
        selftest(ctx, trace)
    if violated and not ctx.violations:
        raise vlib.Undecided("design-level counterexample (%s) did not reproduce on the real code: specification drift" % violated)


def replay(ctx, path):
    refined_known(ctx)
    data = json.load(open(path))
    judge(ctx, data["behaviours"], conformance=False)
