"""C08 -- validator-set totals, indexes and delegation links always match the records.

M  : spec/ValSet.tla, exhaustive: (a) the intended design (every named deviation of the code repaired) satisfies the seven
     invariants; (b) for every deviation the real code still has, the design "as coded" (all OTHER deviations repaired)
     yields a counterexample, which is exported and replayed on the real code.
G1 : every behaviour of three small alphabets (production call patterns; penalties/rewards/copies; RemoveValidator) up to
     depth d, starting with a creation.
G2 : `tlc -simulate` over the rich alphabet (three validators of the three roles, two delegators).
T  : the driver `valset` steps every behaviour through the real core/state.StateDB with the staking module's call patterns
     (and the real staking.doPenalize); ValSet_Mon recomputes every total from the projected records after every operation,
     on copies and on reopened states (the verdict); ValSet_Trace checks conformance to the design layer (drift).
"""
import json
import os
import random
import vlib

ALL_FIX = ["remove", "ghost", "empty", "penalty", "pendbal", "copy", "alias"]

# deviation -> (witness file, signatures whose appearance on the real code shows the deviation is still there)
DEVIATIONS = {
    "remove": ("C08_remove_double_decrement.json", ["C08/StatEqualsRecompute/Root+blk:Remove"]),
    "ghost": ("C08_index_residue.json", ["C08/IndexEqualsDomain/Revert+ghost+tx:Create"]),
    "empty": ("C08_forupdate_resets_index.json", ["C08/IndexEqualsDomain/ForUpdate"]),
    "penalty": ("C08_penalty_shared_delegations.json", ["C08/TotalsEqualSelfPlusDelegations/Revert+tx:Penalise"]),
    "pendbal": ("C08_penalty_delegation_balance.json", ["C08/DelegationBalanceAgrees/Penalise"]),
    "copy": ("C08_copy_delegations.json", ["C08/Readable/Copy+unc:Delegation"]),
    "alias": ("C08_forced_offline_alias.json", ["C08/StatEqualsRecompute/Revert+tx:ForcedOffline"]),
}


def fixset(names):
    return "{" + ", ".join('"%s"' % n for n in sorted(names)) + "}"


ALL_INV = ("StatEqualsRecompute TotalsEqualSelfPlusDelegations StakeIsTokenDivUnit IndexEqualsDomain DelegationLinksAgree "
           "DelegationBalanceAgrees Readable")

M_CFG = """SPECIFICATION Spec
CONSTANTS
  Vals = {1, 2}
  Accts = {1}
  Unit = 10
  MaxOps = %d
  Alpha = "%s"
  GenMode = "none"
  Fix = %s
INVARIANTS %s
VIEW View
CHECK_DEADLOCK FALSE
"""

G_CFG = """INIT Init
NEXT Next
CONSTANTS
  Vals = {%s}
  Accts = {%s}
  Unit = 10
  MaxOps = %d
  Alpha = "%s"
  GenMode = "leaf"
  Fix = %s
CONSTRAINT Leaf
CHECK_DEADLOCK FALSE
"""

INTERESTING = {"Delegate", "Undelegate", "Penalise", "Withdraw", "Deposit", "Status", "Remove"}
BOUNDARY = {"Revert", "Root", "Commit", "Reload", "Copy"}


def nontrivial(beh):
    """A behaviour is non-trivial when, after a creation, it changes stakes/links and then crosses a revert, a root
    computation, a reload or a copy."""
    created = changed = False
    for op in beh:
        if op["op"] == "Create":
            created = True
        elif created and op["op"] in INTERESTING:
            changed = True
        elif changed and op["op"] in BOUNDARY:
            return True
    return False


def witnesses():
    out = []
    wdir = os.path.join(vlib.VERIF, "findings")
    for f in sorted(os.listdir(wdir)) if os.path.isdir(wdir) else []:
        if f.startswith("C08_") and f.endswith(".json"):
            out += json.load(open(os.path.join(wdir, f)))["behaviours"]
    return out


def judge(ctx, behs, tag="", conformance=True, fix=None):
    bpath = ctx.path("behaviours%s.ndjson" % tag)
    vlib.write_ndjson(bpath, behs)
    trace = ctx.path("trace%s.ndjson" % tag)
    info = ctx.drive("valset", trace, behaviours=bpath)
    ctx.cov["traces_validated_against_impl"] += len(behs)
    ctx.cov["evaluations"] += len(behs)
    ctx.cov["distinct_nontrivial"] += len({json.dumps(b, sort_keys=True) for b in behs if nontrivial(b)})
    # T (verdict): property-layer monitor
    vlib.monitor(ctx, "ValSet_Mon", "ValSet_Mon.cfg", trace, name="Mon" + tag, behaviours=bpath, replay_meta={"driver": "valset"},
                 timeout=1500)
    for a in info["aborts"]:
        # the process died inside a behaviour (logging.Crit): the observables cannot be read any more
        ctx.report("C08/Readable/process_abort", vlib.save_behaviour_replay(ctx, "C08/Readable/process_abort", bpath, a["b"], {}), a)
    if conformance:
        conform(ctx, trace, tag, fix if fix is not None else [])
    return trace


def conform(ctx, trace, tag, fix, max_rejects=4):
    """T (drift): conformance to the design layer.  A rejected behaviour is cut out and the rest is checked again."""
    events = vlib.read_ndjson(trace)
    accepted = 0
    rejects = []
    for attempt in range(max_rejects + 1):
        p = ctx.path("conf%s_%d.ndjson" % (tag, attempt))
        vlib.write_ndjson(p, events)
        conf = ctx.tlc("ValSet_Trace", "ValSet_Trace.cfg", name="Conf%s_%d" % (tag, attempt), files={"trace.ndjson": p}, workers=1,
                       timeout=1500, count=False, xss="256m", constants={"Fix": fixset(fix)})
        acc = [v for v in conf.printed if isinstance(v, dict) and v.get("kind") == "ACCEPTED"]
        rej = [v for v in conf.printed if isinstance(v, dict) and v.get("kind") == "REJECTED"]
        if acc:
            accepted = acc[0]["events"]
            break
        if not rej:
            rejects.append("no verdict: %s" % (conf.error or conf.violated or "?"))
            break
        line = rej[0]["line"]
        ev = events[line - 1]
        tid = ev.get("t")
        rejects.append("behaviour %s event %s (%s)" % (tid, ev.get("n"), ev.get("ev")))
        events = [e for e in events if e.get("t") != tid and not (e.get("ev") == "reset" and e.get("b") == tid)]
        if not events:
            break
    ctx.cov["conformance" + tag] = "accepted %d events" % accepted + ("; rejected: " + "; ".join(rejects) if rejects else "")
    if rejects:
        ctx.cov["drift_events"] += len(rejects)
        print("DRIFT: property=C08 the real StateDB left the design layer of ValSet.tla: %s" % "; ".join(rejects), flush=True)


def detect_unrepaired(ctx):
    """Replay the stored witnesses first: a deviation whose witness still fails on the real code is modelled as coded."""
    wit = witnesses()
    if not wit:
        return []
    judge(ctx, wit, tag="_w", conformance=False)
    hits = set(ctx.known_hits) | {v["signature"] for v in ctx.violations}
    un = []
    for name, (_, sigs) in DEVIATIONS.items():
        if any(vlib_match(h, s) for h in hits for s in sigs):
            un.append(name)
    ctx.note("deviations still present in the code (from the witness replays): %s" % (", ".join(sorted(un)) or "none"))
    return un


def vlib_match(observed, listed):
    """observed signature matches a listed one when clause is equal and the listed discriminators are contained."""
    try:
        p1, c1, d1 = observed.split("/", 2)
        p2, c2, d2 = listed.split("/", 2)
    except ValueError:
        return observed == listed
    return p1 == p2 and c1 == c2 and set(d2.split("+")) <= set(d1.split("+"))


def generate(ctx, unrepaired):
    quick = ctx.quick
    behs = []
    fix_now = [f for f in ALL_FIX if f not in unrepaired]
    # M (a): the intended design satisfies the invariants
    m = ctx.tlc_must("ValSet", M_CFG % (6 if quick else 7, "m", fixset(ALL_FIX), ALL_INV), name="M_design", timeout=2400, coverage=not quick)
    m2 = ctx.tlc_must("ValSet", M_CFG % (7 if quick else 9, "malias", fixset(ALL_FIX), ALL_INV), name="M_design_alias", timeout=2400)
    ctx.cov["exhaustive"] = m.ok and m2.ok
    ctx.cov["design_violation"] = m.violated or m2.violated
    m.printed += m2.printed
    if getattr(m, "zero_actions", None):
        ctx.cov["coverage_zero_actions"] = m.zero_actions
    for v in m.printed:
        if isinstance(v, dict) and v.get("kind") == "CEX":
            behs.append(v["h"])
            ctx.note("the intended design violates %s: counterexample exported for replay" % v.get("clause"))
    # M (b): one run per deviation the code still has, every other deviation repaired
    coded = {}
    for dev in unrepaired:
        # RemoveValidator is outside the intended design (no caller): its alphabet, and only the statistics invariant
        alpha, inv = ("remove", "StatEqualsRecompute") if dev == "remove" else ("malias", ALL_INV) if dev == "alias" else ("m", ALL_INV)
        r = ctx.tlc_must("ValSet", M_CFG % (6, alpha, fixset([f for f in ALL_FIX if f != dev]), inv), name="M_coded_" + dev, timeout=1500)
        cex = [v for v in r.printed if isinstance(v, dict) and v.get("kind") == "CEX"]
        coded[dev] = r.violated
        if cex:
            behs.append(cex[-1]["h"])
    ctx.cov["design_as_coded"] = coded
    ncex = len(behs)
    # G1: bounded exhaustive
    d2, d1 = (4, 5) if quick else (5, 6)
    runs = [("1, 2", "1", d2, "g1"), ("1, 2", "1", d2, "g1b"), ("1, 2", "1", d2, "remove"),
            ("1", "1", d1, "g1"), ("1", "1", d1, "remove")]
    # one delegator with delegations to three validators (seeded prelude of 7 operations), 3 / 4 further operations
    runs.append(("1, 2, 3", "1", 7 + (3 if quick else 4), "deleg3"))
    # blind steps (no projection after flagged operations): prelude of 3 operations, 3 / 4 further ones
    runs.append(("1, 2", "1", 3 + (3 if quick else 4), "blind"))
    if not quick:
        runs.append(("1", "1, 2", 5, "g1b"))
    for vals, accts, depth, alpha in runs:
        g = ctx.tlc_must("ValSet", G_CFG % (vals, accts, depth, alpha, fixset(fix_now)), name="G1_%s_%d" % (alpha, depth), timeout=2400)
        behs += [v["h"] for v in g.printed if isinstance(v, dict) and v.get("kind") == "B"]
    n1 = len(behs)
    # G2: simulation over the rich alphabet
    depth = 24 if quick else 32
    num = 150 if quick else 1000
    g2 = ctx.tlc_must("ValSet", G_CFG % ("1, 2, 3", "1, 2", depth, "rich", fixset(fix_now)), name="G2_simulate", timeout=2400,
                      simulate={"num": num}, depth=depth + 1)
    sim = [v["h"] for v in g2.printed if isinstance(v, dict) and v.get("kind") == "B"]
    random.Random(ctx.seed).shuffle(sim)
    behs += sim[:(500 if quick else 3000)]
    ctx.note("behaviours: %d design counterexamples, %d bounded-exhaustive, %d simulated" % (ncex, n1 - ncex, len(behs) - n1))
    return behs, m, coded


def selftest(ctx, trace, fix):
    """Binding self-test: corrupting one recorded field must make the conformance spec reject at that line."""
    ev = vlib.read_ndjson(trace)
    bad = None
    for i, e in enumerate(ev):
        if e.get("ev") == "Delegate" and "obs" in e and e["obs"]["v"][0]["ex"]:
            e["obs"]["v"][0]["tok"] += 1
            bad = i + 1
            break
    if bad is None:
        return
    p = ctx.path("trace_corrupt.ndjson")
    vlib.write_ndjson(p, ev[:bad + 5])
    conf = ctx.tlc("ValSet_Trace", "ValSet_Trace.cfg", name="Conf_selftest", files={"trace.ndjson": p}, workers=1,
                   timeout=600, count=False, xss="256m", constants={"Fix": fixset(fix)})
    rej = [v for v in conf.printed if isinstance(v, dict) and v.get("kind") == "REJECTED"]
    ok = bool(rej) and rej[0]["line"] == bad
    # and the monitor must notice the same corruption (token total no longer self + delegations)
    mon = ctx.tlc("ValSet_Mon", "ValSet_Mon.cfg", name="Mon_selftest", files={"trace.ndjson": p}, workers=1, timeout=600,
                  count=False, xss="256m", check_deadlock=False)
    res = [v for v in mon.printed if isinstance(v, dict) and v.get("kind") == "RESULT"]
    mon_ok = bool(res) and any(it[0] == "TotalsEqualSelfPlusDelegations" and it[2] == bad for it in res[0].get("viol", []))
    ctx.cov["binding_selftest"] = "corrupted line %d: conformance rejected at line %s, monitor %s" % (
        bad, rej[0]["line"] if rej else None, "flagged it" if mon_ok else "MISSED it")
    if not ok or not mon_ok:
        raise vlib.Undecided("trace-checker self-test failed: corrupted field not noticed")


def run(ctx):
    ctx.cov["rule"] = ("behaviours = stored witnesses + design counterexamples + every behaviour of the three G1 alphabets to the "
                       "G1 depths (starting with a creation) + simulated rich behaviours; non-trivial = after a creation changes "
                       "stakes/links and then crosses a revert, a root computation, a reload or a copy; distinct by JSON of the "
                       "action sequence")
    ctx.assumptions += [
        "validator mutations follow the staking module's call patterns transcribed from take_effect_handler.go / endblock.go "
        "(PartialCopy + UpdateValidator, in-place update with a partial copy as old record, UpdateDelegation); penalties run "
        "the real staking.doPenalize",
        "three validators (chancellor, house, senator), two delegators, stake unit 10 LU, amounts 3..40 LU, "
        "MinSelfStake = MinStake = 1, MinDelegationTokens = 5, risk obligation 10 %, empty withdraw queue",
        "'existing validator' = GetValidatorByMainAddr returns a record; observations after every operation on the live object, "
        "on the copy after Copy, on state.New(roots) after Reload",
        "RemoveValidator has no caller in the repository (only the vm.StateDB interface); it is exercised in its own alphabet",
    ]
    unrepaired = detect_unrepaired(ctx)
    behs, m, coded = generate(ctx, unrepaired)
    for b in behs[:3]:
        ctx.sample(b)
    fix_now = [f for f in ALL_FIX if f not in unrepaired]
    trace = judge(ctx, behs, fix=fix_now)
    if not ctx.quick:
        selftest(ctx, trace, fix_now)
    if ctx.cov.get("design_violation") and not ctx.violations:
        raise vlib.Undecided("the intended design violates %s but the counterexample did not reproduce on the real code: "
                             "specification error" % m.violated)
    for dev, violated in coded.items():
        if not violated:
            ctx.note("deviation '%s' is present in the code but the as-coded design run found no counterexample" % dev)
    fired = ctx.cov.get("clauses_fired", {})
    zero = [k for k in ("Stat", "Totals", "StakeDiv", "Index", "Links", "Dbal", "WithDelegations", "Reopened", "Copies") if not fired.get(k)]
    if zero:
        raise vlib.Undecided("vacuous clauses (never evaluated): %s" % zero)


def replay(ctx, path):
    data = json.load(open(path))
    judge(ctx, data["behaviours"], conformance=False)
