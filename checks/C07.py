"""C07 -- native tokens are conserved by transactions, staking, rewards and slashing.

M  : spec/Staking.tla (value buckets, one action per phase of the real code), exhaustive with small constants:
     Conserved after every phase + the clause-level action properties, once with every deviation of the code repaired
     (must hold) and once per deviation as coded (StaleSettle, RefundAfterGasUsed, DropRemovedRewards): the design-level
     counterexamples are exported as histories and must reproduce on the real chain.
G1 : every history of the small alphabet with a bounded number of transactions (period 2, 4 blocks).
G2 : `tlc -simulate` over the full alphabet (two delegators, three genesis validators, two creatable validators, every
     transaction kind, failing and refused transactions) across four staking periods.
T  : the driver `staking` executes every history on the real chain fixture (builder chain A with the miner's call
     sequence, imported into an independent chain B) and dumps ALL value buckets after every transaction, after the
     end-of-block hooks and at every block boundary; spec/Staking_Mon.tla (the verdict) checks Total at block boundaries
     and FeesEqualRewards, SubsidyFromPool, PenaltyArrives, ReleasedOnce, RewardsNeverLost, FailedActivationRefunded.
"""
import json
import os
import random
import vlib

BASE = dict(Users='{"u1"}', GenVals='{"g1", "g2", "g3"}', NewVals='{}', Unit=10, Amts='{15}', Period=2, MaxBlocks=4,
            MaxTx=2, MaxTxTotal=2, MRP=1, Fee=13, Refund=5, Threshold=40, Wait=2, Delay=1,
            StaleSettle="FALSE", RefundAfterGasUsed="FALSE", DropRemovedRewards="FALSE",
            Alphabet='"small"', GenMode='"none"')
SWITCHES = ["StaleSettle", "RefundAfterGasUsed", "DropRemovedRewards"]
# the driver options that make the real chain use the model's period / delays
OPTS_SMALL = {"period": 2, "mrp": 1, "wdelay": 1, "inact": 2}
OPTS_DEFAULT = {}                     # Appendix B: period 4, MaxRewardsPeriod 2, withdraw delay 6, inactivity wait 8
# second table: forced settlement every period, a longer inactivity wait (so that a penalty can follow the release of a
# withdrawal of the same validator while the finished record is still retained) and a rewards pool that runs dry
# ... and MaxStakes so small (60 stake units) that two delegations of 100 LU overflow a validator of 505 LU
OPTS_MRP1 = {"mrp": 1, "inact": 12, "pool": 1200, "maxstake": 60}
OPTS_EMPTY_POOL = {"pool": 0}

PROPS = "FeesEqualRewards SubsidyFromPool PenaltyArrives ReleasedOnce RewardsNeverLost FailedActivationRefunded"


def cfg(consts, mode):
    c = "\n".join("  %s = %s" % kv for kv in consts.items())
    if mode == "M":
        return ("SPECIFICATION Spec\nCONSTANTS\n%s\nINVARIANT Conserved\nPROPERTY %s\nVIEW View\nCHECK_DEADLOCK FALSE\n"
                % (c, PROPS))
    return "INIT Init\nNEXT Next\nCONSTANTS\n%s\nCONSTRAINT Leaf\nCHECK_DEADLOCK FALSE\n" % c


def tx(k, a="u1", b="u2", v="g1", x=0, p=1, f=0, c=0, r=0, g=0, z=""):
    t = dict(k=k, a=a, b=b, v=v, x=x, p=p, f=f, c=c, r=r)
    if g:
        t["g"] = g
    if z:
        t["z"] = z
    return t


def blk(cb="g1", *txs):
    return dict(cb=cb, txs=list(txs))


def scenarios():
    """Hand-written histories that make every clause of the monitor fire in every run (vacuity guard)."""
    s1 = [blk("g1", tx("transfer", x=5, p=2), tx("update", a="g2", v="g2", f=1, c=1000, r=5000),
              tx("update", a="g3", v="g3", f=1, c=3333, r=10000)),
          blk("g1", tx("create", a="n1", v="n1", x=37, f=3, c=3333, r=0), tx("callset", p=3), tx("badnonce", x=3)),
          blk("g2", tx("callclear", p=3), tx("deposit", a="u1", v="g2", x=10)),
          blk("g1"),
          blk("g1", tx("dadd", a="u1", v="g2", x=25), tx("dadd", a="u2", v="n1", x=15), tx("status", a="n1", v="n1", f=1)),
          blk("g2", tx("deposit", a="g2", v="g2", x=7), tx("withdraw", a="g1", v="g1", b="u3", x=33)),
          blk("g1", tx("dadd", a="u2", v="g2", x=100, p=2)),
          blk("g1", tx("nofunds"), tx("lowgas", x=1), tx("garbage")),
          blk("g1", tx("dsub", a="u1", v="g2", x=10), tx("dadd", a="u1", v="g3", x=40)),   # g3 is slashed at block 11: refunded
          blk("g2", tx("settle", a="g2", v="g2"), tx("dsettle", a="u2", v="g2")),
          blk("g1", tx("withdraw", a="n1", v="n1", b="u3", x=37)),
          blk("g1")] + [blk("g1") for _ in range(8)]
    # a validator that gives up all its stake while it still holds a settlement residue
    s2 = [blk("g1", tx("withdraw", a="g2", v="g2", b="u1", x=505))] + [blk("g1") for _ in range(4)]
    # forced settlement of a House validator (MaxRewardsPeriod)
    s3 = [blk("g1") for _ in range(12)]
    # a withdrawal of g3 (never proposes) is released at block 11; with the inactivity wait of the second table its penalty
    # comes at block 15, while the finished record is still in the queue (retention)
    # (the transfer with a gas limit near the block's goes first: it needs nearly the whole gas pool to start)
    s4 = [blk("g1", tx("widegas", a="u2", b="u1", x=3), tx("transfer", a="u2", b="u1", x=1), tx("withdraw", a="g3", v="g3", b="u3", x=100))] \
        + [blk("g1") for _ in range(2)] + [blk("g1", tx("transfer", a="u2", b="u1", x=2, p=2))] + [blk("g1") for _ in range(14)]
    # a validator with five delegators is penalised (inactivity: block 11, or 15 with the second table); two delegations
    # of 100 LU to g2 (505 LU): with the second table's MaxStakes the second one overflows in the pending handler
    # (no risk obligation: the 10 % penalty is then exactly one LU per stake unit, so every delegator is charged)
    s5 = [blk("g1", tx("update", a="g3", v="g3", f=1, c=1000, r=0), tx("update", a="g2", v="g2", f=1))] + [blk("g1"), blk("g1")] \
        + [blk("g1", *[tx("dadd", a=d, v="g3", x=100) for d in ("u1", "u2", "u3", "g1", "g2")]),
           blk("g1", tx("dadd", a="u1", v="g2", x=100), tx("dadd", a="u2", v="g2", x=100))] + [blk("g1") for _ in range(11)]
    # unbinding at the boundaries of the minimum delegation (10 LU): of four delegations of 100 LU to g2 the delegators take
    # back 100 (nothing left), 95 (the rest is below the minimum: the take-effect handler forces a full withdrawal), 90
    # (exactly the minimum is left) and 85; the withdrawals are released at block 19
    s6 = [blk("g1", tx("update", a="g2", v="g2", f=1, c=1000))] + [blk("g1"), blk("g1")] \
        + [blk("g1", *[tx("dadd", a=d, v="g2", x=100) for d in ("u1", "u2", "u3", "g1")])] + [blk("g1") for _ in range(3)] \
        + [blk("g1", tx("dsub", a="u1", v="g2", x=100), tx("dsub", a="u2", v="g2", x=95), tx("dsub", a="u3", v="g2", x=90),
               tx("dsub", a="g1", v="g2", x=85))] + [blk("g1") for _ in range(4)] \
        + [blk("g1", tx("dadd", a="u3", v="g2", x=95))] \
        + [blk("g1") for _ in range(7)]   # (a delegation whose payload bytes equal those of the unbinding that was enlarged)
    return [s1, s2, s3, s4, s5, check_coverage_scenario(), s6]


def check_coverage_scenario():
    """One transaction per check of staking/handler.go, delegation_handler.go and tx_converter.go that FAILS at that check
    with everything before it passing (what each hit is recorded from the converter's log: handler_check_coverage)."""
    b1 = blk("g1", tx("create", a="n1", v="n1", x=5, f=3),                               # accepted (House, no minimum self stake)
             tx("create", a="n1", v="n1", x=15, f=3),                                   # a pending creation exists
             tx("create", a="g2", v="g2", x=15, f=3),                                   # the validator exists
             tx("create", a="n2", v="n2", x=15, f=3, z="op"))                           # operator is not the sender
    b2 = blk("g1", tx("create", a="n2", v="n2", x=5, f=2),                               # below the minimum self stake
             tx("create", a="n2", v="n2", x=2000, f=3),                                 # above MaxStakes
             tx("create", a="n2", v="n2", x=15, f=3, z="pub"),                          # malformed main key
             tx("create", a="n2", v="n2", x=15, f=3, g=150000),                         # not enough gas for a creation
             tx("update", a="g1", v="g1"),                                              # nothing changes
             tx("update", a="n2", v="n2", f=1),                                         # validator not found
             tx("update", a="g3", v="g3", f=1, c=1000), tx("update", a="g2", v="g2", f=1))
    b3 = blk("g1", tx("deposit", a="g1", v="g1", x=1000),                                # above MaxStakes
             tx("deposit", a="u1", v="g2", x=15),                                       # not the operator
             tx("withdraw", a="g3", v="g3", b="u1", x=15, z="norcpt"),                  # no recipient
             tx("withdraw", a="g3", v="g3", b="u1", x=0),                               # no value
             tx("withdraw", a="g3", v="g3", b="u1", x=2000),                            # more than the self stake
             tx("badaction"), tx("garbage"))
    b4 = blk("g1", tx("settle", a="n1", v="n1"),                                         # offline
             tx("status", a="g2", v="g2", f=2),                                         # not a status
             tx("deposit", a="g2", v="g2", x=15), tx("status", a="g2", v="g2", f=0),    # a pending transaction exists
             tx("status", a="g1", v="g1", f=1),                                         # already in that status
             tx("status", a="n1", v="n1", f=1),                                         # stake too low to go online
             tx("dadd", a="u1", v="n2", x=15),                                          # validator not found
             tx("dadd", a="u1", v="g1", x=15),                                          # does not accept delegations
             tx("dadd", a="g2", v="g2", x=15),                                          # delegating to oneself
             tx("dadd", a="u1", v="g2", x=5),                                           # below the minimum delegation
             tx("dadd", a="u1", v="g2", x=2000))                                        # above MaxStakes
    b5 = blk("g1", tx("dadd", a="u1", v="g2", x=15), tx("dadd", a="u1", v="g3", x=15),
             tx("dadd", a="u1", v="n1", x=15),                                          # third validator of one delegator
             *[tx("dadd", a=d, v="g2", x=15) for d in ("u2", "u3", "g1", "g3", "n1", "n2")])   # the seventh delegator of g2
    b6 = blk("g1", tx("drain", a="n2", b="u1", x=1101000), tx("create", a="n2", v="n2", x=1500, f=3),   # cannot afford the stake
             tx("drain", a="u3", b="u1", x=120005), tx("dadd", a="u3", v="g3", x=15),                   # cannot afford the delegation
             tx("drain", a="n1", b="u1", x=120005), tx("deposit", a="n1", v="n1", x=15),                # cannot afford the deposit
             tx("dsub", a="u1", v="n2", x=15),                                          # validator not found
             tx("dsub", a="g2", v="g2", x=15),                                          # oneself
             tx("dsub", a="g1", v="g3", x=15),                                          # no such delegation
             tx("dsub", a="u1", v="g2", x=1000),                                        # more than delegated
             tx("dsettle", a="u1", v="n2"), tx("dsettle", a="g1", v="g3"))              # not found / no such delegation
    tail = [blk("g1") for _ in range(5)]                                                 # g3 is penalised and expelled at block 11
    b12 = blk("g1", tx("status", a="g3", v="g3", f=1),                                   # expelled (status)
              tx("dadd", a="u2", v="g3", x=15))                                         # expelled (delegation)
    return [b1, b2, b3, b4, b5, b6] + tail + [b12] + [blk("g1") for _ in range(4)]


# every check of the pending handlers and of the converter, by the message the converter logs
HANDLER_CHECKS = {
    "converter": ["tx decode failed", "unsupported action type", "not enough gas for validator creation"],
    "create": ["authorization failed", "insufficient self staking", "stakes overflow", "invalidate mainPubKey",
               "validator already exist", "insufficient balance for paying a deposit"],
    "update": ["validator not found", "nothing happened"],
    "deposit": ["authorization failed", "insufficient balance for paying a deposit", "stakes overflow"],
    "withdraw": ["recipient required", "value is too low", "insufficient staking for withdraw"],
    "settle": ["validator is offline"],
    "status": ["invalidate status", "pending transaction exist", "validator has been expelled", "already in status",
               "insufficient stake, can not online"],
    "dadd": ["validator not found", "validator do not accept delegation", "validator has been expelled",
             "can not apply delegation transaction to oneself", "delegation value too low", "insufficient balance for delegation",
             "delegates to any new validator due to limit", "delegations from new delegator due to limit", "stakes overflow"],
    "dsub": ["validator not found", "can not apply delegation transaction to oneself", "delegation to validator not exist",
             "insufficient delegation balance for unbind"],
    "dsettle": ["validator not found", "delegation to validator not exist"],
}
HANDLER_UNREACHABLE = ["invalidate master sign (SignatureRequired is false for every role from version 5 on)"]


def handler_coverage(ctx, trace):
    cov = ctx.cov.setdefault("handler_check_coverage", {})
    for e in vlib.read_ndjson(trace):
        if e.get("ev") == "Tx" and e.get("failed") and e.get("herr"):
            k = e["k"] if e["k"] not in ("garbage", "badaction") else "converter"
            if "gas for validator creation" in e["herr"] or e["herr"] == "tx decode failed":
                k = "converter"
            for chk in HANDLER_CHECKS.get(k, []):
                if chk in e["herr"]:
                    cov.setdefault("%s: %s" % (k, chk), 0)
                    cov["%s: %s" % (k, chk)] += 1


def nontrivial(h):
    """A history is non-trivial when it offers at least one staking transaction and crosses a period end."""
    kinds = {t["k"] for b in h for t in b["txs"]}
    return len(h) >= 4 and bool(kinds & {"create", "deposit", "withdraw", "status", "dadd", "dsub", "settle", "update"})


def load_witnesses():
    out = []
    wdir = os.path.join(vlib.VERIF, "findings")
    for f in sorted(os.listdir(wdir)) if os.path.isdir(wdir) else []:
        if f.startswith("C07_") and f.endswith(".json"):
            d = json.load(open(os.path.join(wdir, f)))
            out.append((f, d["behaviours"], (d.get("meta") or {}).get("opts") or {}))
    return out


def judge(ctx, behs, opts, name, expect=None):
    """Chunked so that one monitor run stays below ~25 000 events; returns the traces of the chunks."""
    per = max(1, 25000 // max(1, (sum(3 * len(b) + 3 for b in behs) // max(1, len(behs)))))
    out = []
    for i in range(0, len(behs), per):
        out.append(judge1(ctx, behs[i:i + per], opts, name if i == 0 else "%s_%d" % (name, i // per), expect if i == 0 else None))
    return out


def judge1(ctx, behs, opts, name, expect=None):
    """Drive the histories through the real chain with the given parameter table and let the monitor judge the trace.
    expect: {behaviour index: label} of design-level counterexamples that must show a monitor failure."""
    if not behs:
        return None
    bpath = ctx.path("behaviours_%s.ndjson" % name)
    vlib.write_ndjson(bpath, behs)
    trace = ctx.path("trace_%s.ndjson" % name)
    info = ctx.drive("staking", trace, behaviours=bpath, opts=opts, timeout=2400)
    handler_coverage(ctx, trace)
    ctx.cov["traces_validated_against_impl"] += len(behs)
    ctx.cov["evaluations"] += len(behs)
    ctx.cov["distinct_nontrivial"] += len({json.dumps(b, sort_keys=True) for b in behs if nontrivial(b)})
    result, _ = vlib.monitor(ctx, "Staking_Mon", "Staking_Mon.cfg", trace, name="Mon_" + name, behaviours=bpath,
                             replay_meta={"driver": "staking", "opts": opts}, timeout=1500)
    for a in info["aborts"]:
        msg = a.get("msg", "")
        if "MUST BE a BUG" in msg or "distribution fatal" in msg:
            # the code's own conservation assertions (logging.Crit) fired
            sig = "C07/Total/process_abort"
            ctx.report(sig, vlib.save_behaviour_replay(ctx, sig, bpath, a["b"], {"driver": "staking", "opts": opts}), a)
    if result.get("fired", {}).get("Aborted"):
        ctx.note("%s: %d behaviours aborted (panic / build error) -- see %s" % (name, result["fired"]["Aborted"], trace))
    if expect:
        events = vlib.read_ndjson(trace)
        bad = {events[item[2] - 1].get("t") for item in result.get("viol", []) if 0 < item[2] <= len(events)}
        for idx, label in expect.items():
            if idx not in bad:
                raise vlib.Undecided("design-level counterexample (%s, behaviour %d of %s) did not reproduce on the real "
                                     "code: specification drift" % (label, idx, bpath))
            ctx.note("design-level counterexample for %s reproduced on the real chain" % label)
    return trace


def run(ctx):
    quick = ctx.quick
    rnd = random.Random(ctx.seed)
    ctx.cov["rule"] = ("histories = stored witnesses + fixed scenarios + design-level counterexamples + every history of the small "
                       "alphabet within the G1 bound + simulated histories of the full alphabet; non-trivial = offers a staking "
                       "transaction and crosses a period end; distinct by JSON of the history")
    ctx.assumptions += ["protocol version 5 from genesis, scaled parameter table of DESIGN.md Appendix B (stake unit 10 LU, period 4 or 2)",
                        "solo engine (no seals); builder = the miner's sequence of exported calls; three genesis validators "
                        "(Chancellor, House, Senator), two creatable validators, three users, one refund contract",
                        "conservation is judged at block boundaries on the state the next block starts from; inside a block the "
                        "fees not yet turned into rewards are the in-flight bucket header.GasRewards",
                        "no self-destruct (burnt bucket is 0), no double-sign evidence in C07 histories (inactivity penalties only)"]
    # ---------------------------------------------------------------- M: exhaustive design-level runs
    mc = dict(BASE)
    if not quick:
        mc.update(MaxTxTotal=3)
    m = ctx.tlc_must("Staking", cfg(mc, "M"), name="M_repaired", timeout=2400, coverage=not quick)
    ctx.cov["exhaustive"] = m.ok
    if getattr(m, "zero_actions", None):
        ctx.cov["coverage_zero_actions"] = m.zero_actions
    small = []          # behaviours for the period-2 fixture
    expect = {}
    if m.violated:
        ctx.cov["design_violation"] = m.violated
        for v in m.printed:
            if isinstance(v, dict) and v.get("kind") == "CEX":
                small.append(v["h"] + [blk("g1")])
                break
    for sw in SWITCHES:
        c = dict(BASE)
        c[sw] = "TRUE"
        c["MaxTxTotal"] = 3
        r = ctx.tlc_must("Staking", cfg(c, "M"), name="M_" + sw, timeout=1200)
        cex = [v for v in r.printed if isinstance(v, dict) and v.get("kind") == "CEX"]
        if not r.violated or not cex:
            raise vlib.Undecided("the design model with %s as coded has no counterexample: specification drift" % sw)
        expect[len(small)] = sw
        small.append(cex[0]["h"] + [blk("g1")])
    ctx.note("design-level counterexamples exported: %d" % len(small))
    # ---------------------------------------------------------------- G1: bounded exhaustive, small alphabet
    g1c = dict(BASE, NewVals='{"n1"}', MaxTxTotal=1 if quick else 2, GenMode='"leaf"')
    g1 = ctx.tlc_must("Staking", cfg(g1c, "G"), name="G1_bounded", timeout=2400)
    g1b = [v["h"] for v in g1.printed if isinstance(v, dict) and v.get("kind") == "B"]
    if quick and len(g1b) < 400:
        # one level deeper, sampled
        g1d = ctx.tlc_must("Staking", cfg(dict(g1c, MaxTxTotal=2), "G"), name="G1_bounded2", timeout=2400)
        more = [v["h"] for v in g1d.printed if isinstance(v, dict) and v.get("kind") == "B"]
        rnd.shuffle(more)
        g1b += more[:300]
    small += g1b
    # ---------------------------------------------------------------- G2: simulation, full alphabet
    full = dict(Users='{"u1", "u2"}', GenVals='{"g1", "g2", "g3"}', NewVals='{"n1", "n2"}', Unit=10, Amts='{5, 15, 37, 100}',
                Period=4, MaxBlocks=16 if quick else 24, MaxTx=3, MaxTxTotal=30 if quick else 48, MRP=2, Fee=1000, Refund=300,
                Threshold=1000, Wait=8, Delay=6, StaleSettle="TRUE", RefundAfterGasUsed="TRUE", DropRemovedRewards="TRUE",
                Alphabet='"full"', GenMode='"leaf"')
    num = 30 if quick else 500
    depth = 8 * full["MaxBlocks"] + 20
    ga = ctx.tlc_must("Staking", cfg(full, "G"), name="G2_simulate_mrp2", timeout=2400, simulate={"num": num}, depth=depth)
    gb = ctx.tlc_must("Staking", cfg(dict(full, MRP=1, Wait=12), "G"), name="G2_simulate_mrp1", timeout=2400,
                      simulate={"num": num}, depth=depth, extra=["-aril", "7"])
    simA = [v["h"] for v in ga.printed if isinstance(v, dict) and v.get("kind") == "B"]
    simB = [v["h"] for v in gb.printed if isinstance(v, dict) and v.get("kind") == "B"]
    wit = load_witnesses()
    scen = scenarios()
    ctx.note("behaviours: %d witnesses, %d scenarios, %d design cex, %d bounded-exhaustive, %d simulated" % (
        len(wit), len(scen), len(expect), len(g1b), len(simA) + len(simB)))
    for b in (scen[0], simA[0] if simA else None, g1b[-1] if g1b else None):
        if b:
            ctx.sample(b)
    # ---------------------------------------------------------------- T: real chain + monitor
    small_traces = judge(ctx, small, OPTS_SMALL, "small", expect)
    default_traces = judge(ctx, [b for _, bs, o in wit if not o for b in bs] + scen + simA, OPTS_DEFAULT, "default")
    judge(ctx, scen + simB, OPTS_MRP1, "mrp1")
    judge(ctx, [scen[0], scen[2]] + simA[:3], OPTS_EMPTY_POOL, "emptypool")
    for i, (f, bs, o) in enumerate(wit):
        if o:
            judge(ctx, bs, o, "wit%d" % i)
    fired = ctx.cov.get("clauses_fired", {})
    idle = sorted(k for k in ("Total", "FeesEqualRewards", "SubsidyFromPool", "PenaltyArrives", "ReleasedOnce",
                              "RewardsNeverLost", "FailedActivationRefunded", "Settlements") if not fired.get(k))
    if idle:
        raise vlib.Undecided("monitor clauses never fired (vacuous run): %s" % ", ".join(idle))
    want = ["%s: %s" % (k, c) for k, cs in HANDLER_CHECKS.items() for c in cs]
    missing = [w for w in want if not ctx.cov.get("handler_check_coverage", {}).get(w)]
    ctx.cov["handler_checks_total"] = len(want)
    ctx.cov["handler_checks_never_failed_at"] = missing
    ctx.cov["handler_checks_unreachable"] = HANDLER_UNREACHABLE
    if missing:
        raise vlib.Undecided("no generated transaction failed at these handler checks: %s" % "; ".join(missing))
    for t in small_traces:
        conformance(ctx, t)
    if not quick:
        selftest(ctx, default_traces[0])
        conf_selftest(ctx, small_traces[0])
    if m.violated and not ctx.violations:
        raise vlib.Undecided("design-level counterexample of the repaired model (%s) did not reproduce on the real code: "
                             "specification drift" % m.violated)


def conformance(ctx, trace):
    """T (drift): the small-alphabet trace (period 2) against the design layer, stake side (Staking_Trace)."""
    conf = ctx.tlc("Staking_Trace", "Staking_Trace.cfg", name="Conf", files={"trace.ndjson": trace}, workers=1,
                   timeout=1500, count=False, xss="256m")
    acc = [v for v in conf.printed if isinstance(v, dict) and v.get("kind") == "ACCEPTED"]
    rej = [v for v in conf.printed if isinstance(v, dict) and v.get("kind") == "REJECTED"]
    if acc:
        ctx.cov["conformance_events_accepted"] = ctx.cov.get("conformance_events_accepted", 0) + acc[0]["events"]
        ctx.cov.setdefault("conformance", "accepted")
    else:
        ctx.cov["drift_events"] += 1
        if rej:
            ev = {k: v for k, v in rej[0].get("event", {}).items() if k != "obs"}
            ctx.cov["conformance"] = "rejected at line %s: %s" % (rej[0].get("line"), json.dumps(ev)[:500])
        else:
            ctx.cov["conformance"] = "no verdict: %s" % (conf.error or conf.violated or "timeout" if conf.timeout else conf.error)
        print("DRIFT: property=C07 the real chain left the design layer of Staking.tla (stake side): %s" % ctx.cov["conformance"],
              flush=True)


def conf_selftest(ctx, trace):
    """Binding self-test of the conformance spec: a corrupted self stake at a block boundary must be rejected there."""
    ev = vlib.read_ndjson(trace)
    bad = None
    for i, e in enumerate(ev):
        if e.get("ev") == "Block" and e.get("blk") == 1 and e["obs"]["vals"]:
            e["obs"]["vals"][0]["self"] += 1
            bad = i + 1
            break
    if bad is None:
        return
    p = ctx.path("trace_conf_corrupt.ndjson")
    vlib.write_ndjson(p, ev[:bad + 3])
    conf = ctx.tlc("Staking_Trace", "Staking_Trace.cfg", name="Conf_selftest", files={"trace.ndjson": p}, workers=1,
                   timeout=600, count=False, xss="256m")
    rej = [v for v in conf.printed if isinstance(v, dict) and v.get("kind") == "REJECTED"]
    ok = bool(rej) and rej[0]["line"] == bad
    ctx.cov["binding_selftest_conformance"] = "corrupted self stake at line %d rejected at line %s" % (bad, rej[0]["line"] if rej else None)
    if not ok:
        raise vlib.Undecided("trace-checker self-test failed: corrupted field not rejected")


def selftest(ctx, trace):
    """Binding self-test: corrupting one recorded bucket must make the monitor report a Total failure at that block."""
    ev = vlib.read_ndjson(trace)
    bad = None
    for i, e in enumerate(ev):
        if e.get("ev") == "Block" and e.get("blk") == 2:
            e["obs"]["bal"][0]["v"] += 1
            bad = i + 1
            break
    if bad is None:
        return
    p = ctx.path("trace_corrupt.ndjson")
    vlib.write_ndjson(p, ev[:bad + 1])
    res = ctx.tlc("Staking_Mon", "Staking_Mon.cfg", name="Mon_selftest", files={"trace.ndjson": p}, workers=1, timeout=600,
                  count=False, xss="256m", check_deadlock=False)
    out = [v for v in res.printed if isinstance(v, dict) and v.get("kind") == "RESULT"]
    hit = bool(out) and any(it[0] == "Total" and it[2] == bad for it in out[0].get("viol", []))
    ctx.cov["binding_selftest"] = "corrupted balance at line %d: %s" % (bad, "reported" if hit else "NOT reported")
    if not hit:
        raise vlib.Undecided("monitor self-test failed: corrupted bucket not reported")


def replay(ctx, path):
    data = json.load(open(path))
    opts = (data.get("meta") or {}).get("opts") or {}
    judge(ctx, data["behaviours"], opts, "replay")
