"""C10 -- committed state is exactly recoverable, roots depend only on content, copies are equal and independent.

M  : spec/StateCommit.tla, exhaustive over three small alphabets (accounts / validators+delegations / queue+records):
     TriesHoldContent, ReopenEqualsLive, CopyEqualsOriginal for the intended design; for the deviation the code still has
     (deepCopy drops the delegation list) the as-coded design yields the counterexample that is replayed.
G1 : every behaviour of the three alphabets up to depth d (writes with Root / Commit / Reload / Copy / CopySwap / Finalise
     points interleaved, starting with a write): hence every permutation and regrouping of the writes.
G2 : `tlc -simulate` over the rich alphabet.
T  : the driver `statecommit` executes them on real StateDBs and records root triples and dumps (live object through
     getters; state.New(roots) through getters and through trie enumeration; copies when taken and after every later
     operation).  StateCommit_Mon compares real dumps with real dumps (the verdict; SameContentSameRoots groups every root
     triple of the whole run by the dump of the object it was computed on); StateCommit_Trace checks the model's content
     against the dumps (drift).
"""
import json
import os
import random
import vlib

ALL_FIX = ["copy", "copydirty", "midtx"]
DEVIATIONS = {"copy": ["C10/CopyEqualsOriginal/error+unc:Delegate"], "copydirty": ["C10/ReopenEqualsLive/accounts+copied", "C10/ReopenEqualsLive/copied+error"], "midtx": ["C10/SameContentSameRoots/midtx+stateRoot"]}


def fixset(names):
    return "{" + ", ".join('"%s"' % n for n in sorted(names)) + "}"


M_CFG = """SPECIFICATION Spec
CONSTANTS
  Unit = 10
  MaxOps = %d
  Alpha = "%s"
  GenMode = "none"
  Fix = %s
INVARIANTS TriesHoldContent ReopenEqualsLive CopyEqualsOriginal DiskHoldsCommitted
VIEW View
CHECK_DEADLOCK FALSE
"""

G_CFG = """INIT Init
NEXT Next
CONSTANTS
  Unit = 10
  MaxOps = %d
  Alpha = "%s"
  GenMode = "leaf"
  Fix = %s
CONSTRAINT Leaf
CHECK_DEADLOCK FALSE
"""

CONTROL = {"Root", "Commit", "Reload", "Copy", "CopySwap", "Flush", "Restart", "ReloadOld"}


def nontrivial(beh):
    """Non-trivial: at least two writes and a control point (root / commit / reload / copy) after the first write."""
    writes = 0
    ctl = False
    for op in beh:
        if op["op"] in CONTROL:
            ctl = ctl or writes > 0
        elif op["op"] != "Finalise":
            writes += 1
    return writes >= 2 and ctl


def witnesses():
    out = []
    wdir = os.path.join(vlib.VERIF, "findings")
    for f in sorted(os.listdir(wdir)) if os.path.isdir(wdir) else []:
        if f.startswith("C10_") and f.endswith(".json"):
            out += json.load(open(os.path.join(wdir, f)))["behaviours"]
    return out


def monitor(ctx, trace, bpath, tag=""):
    """Run StateCommit_Mon and turn its result into verdicts.  viol entries are [clause, discriminators, line, otherLine];
    for SameContentSameRoots the replay file holds both behaviours."""
    res = ctx.tlc("StateCommit_Mon", "StateCommit_Mon.cfg", name="Mon" + tag, files={"trace.ndjson": trace}, workers=1,
                  timeout=2400, xss="512m", count=False, check_deadlock=False)
    if res.timeout:
        raise vlib.Undecided("monitor timed out (%s)" % res.dir)
    result = None
    for v in res.printed:
        if isinstance(v, dict) and v.get("kind") == "RESULT":
            result = v
    if result is None:
        raise vlib.Undecided("monitor did not consume the trace (%s): %s" % (res.dir, res.error or res.violated))
    events = None
    behs = None
    for clause, disc, line, other in result.get("viol", []):
        sig, _ = vlib.make_signature(ctx.pid, [clause, disc, line])
        k = vlib.known_match(ctx, sig)
        if k:
            ctx.report(k)
            continue
        if events is None:
            events = vlib.read_ndjson(trace)
            behs = vlib.read_ndjson(bpath)
        tids = [events[n - 1].get("t") for n in (other, line) if 0 < n <= len(events)]
        rp = os.path.join(vlib.WORK, "replays", "%s_%s_t%s_s%d.json" % (ctx.pid, "".join(c if c.isalnum() else "_" for c in sig)[:60],
                                                                     "_".join(str(t) for t in tids), ctx.seed))
        os.makedirs(os.path.dirname(rp), exist_ok=True)
        with open(rp, "w") as fh:
            json.dump({"property": ctx.pid, "signature": sig, "seed": ctx.seed, "tier": ctx.tier, "meta": {"driver": "statecommit"},
                       "behaviours": [behs[t] for t in tids if t is not None and t < len(behs)]}, fh)
        detail = {"line": line, "other_line": other,
                  "events": [{kk: vv for kk, vv in events[n - 1].items() if kk in ("ev", "t", "n", "roots", "endroots", "panic")}
                             for n in (other, line) if 0 < n <= len(events)]}
        ctx.report(sig, rp, detail)
    f = ctx.cov.setdefault("clauses_fired", {})
    for k, n in (result.get("fired") or {}).items():
        f[k] = max(f.get(k, 0), n) if k == "Contents" else f.get(k, 0) + n
    ctx.cov["trace_events_checked"] = ctx.cov.get("trace_events_checked", 0) + result.get("events", 0)
    return result


def conform(ctx, trace, tag, fix, max_rejects=4):
    events = vlib.read_ndjson(trace)
    accepted = 0
    rejects = []
    for attempt in range(max_rejects + 1):
        p = ctx.path("conf%s_%d.ndjson" % (tag, attempt))
        vlib.write_ndjson(p, events)
        conf = ctx.tlc("StateCommit_Trace", "StateCommit_Trace.cfg", name="Conf%s_%d" % (tag, attempt), files={"trace.ndjson": p},
                       workers=1, timeout=2400, count=False, xss="512m", constants={"Fix": fixset(fix)})
        acc = [v for v in conf.printed if isinstance(v, dict) and v.get("kind") == "ACCEPTED"]
        rej = [v for v in conf.printed if isinstance(v, dict) and v.get("kind") == "REJECTED"]
        if acc:
            accepted = acc[0]["events"]
            break
        if not rej:
            rejects.append("no verdict: %s" % (conf.error or conf.violated or "?"))
            break
        ev = events[rej[0]["line"] - 1]
        tid = ev.get("t")
        rejects.append("behaviour %s event %s (%s)" % (tid, ev.get("n"), ev.get("ev")))
        events = [e for e in events if e.get("t") != tid]
        if not events:
            break
    ctx.cov["conformance" + tag] = "accepted %d events" % accepted + ("; rejected: " + "; ".join(rejects) if rejects else "")
    if rejects:
        ctx.cov["drift_events"] += len(rejects)
        print("DRIFT: property=C10 the real StateDB left the design layer of StateCommit.tla: %s" % "; ".join(rejects), flush=True)


def judge(ctx, behs, tag="", conformance=True, fix=None):
    bpath = ctx.path("behaviours%s.ndjson" % tag)
    vlib.write_ndjson(bpath, behs)
    trace = ctx.path("trace%s.ndjson" % tag)
    info = ctx.drive("statecommit", trace, behaviours=bpath, timeout=1800)
    ctx.cov["traces_validated_against_impl"] += len(behs)
    ctx.cov["evaluations"] += len(behs)
    ctx.cov["distinct_nontrivial"] += len({json.dumps(b, sort_keys=True) for b in behs if nontrivial(b)})
    monitor(ctx, trace, bpath, tag)
    for a in info["aborts"]:
        ctx.report("C10/Readable/process_abort", vlib.save_behaviour_replay(ctx, "C10/Readable/process_abort", bpath, a["b"], {}), a)
    if conformance:
        conform(ctx, trace, tag, fix or [])
    return trace


def detect_unrepaired(ctx):
    wit = witnesses()
    if not wit:
        return []
    judge(ctx, wit, tag="_w", conformance=False)
    hits = set(ctx.known_hits) | {v["signature"] for v in ctx.violations}
    un = []
    for name, sigs in DEVIATIONS.items():
        for h in hits:
            for s in sigs:
                p1, c1, d1 = h.split("/", 2)
                p2, c2, d2 = s.split("/", 2)
                if c1 == c2 and set(d2.split("+")) <= set(d1.split("+")) and name not in un:
                    un.append(name)
    ctx.note("deviations still present in the code (from the witness replays): %s" % (", ".join(sorted(un)) or "none"))
    return un


def generate(ctx, unrepaired):
    quick = ctx.quick
    behs = []
    fix_now = [f for f in ALL_FIX if f not in unrepaired]
    depths = ({"macct": 7, "val": 6, "recs": 6, "disk": 9, "slots": 9, "old": 8, "recs2": 8, "reset": 8} if quick
              else {"macct": 8, "val": 7, "recs": 7, "disk": 11, "slots": 10, "old": 9, "recs2": 9, "reset": 9})
    ok = True
    for alpha, d in depths.items():
        m = ctx.tlc_must("StateCommit", M_CFG % (d, alpha, fixset(ALL_FIX)), name="M_design_" + alpha, timeout=2400, coverage=not quick)
        ok = ok and m.ok
        if m.violated:
            ctx.cov["design_violation"] = m.violated
        for v in m.printed:
            if isinstance(v, dict) and v.get("kind") == "CEX":
                behs.append(v["h"])
                ctx.note("the intended design violates %s: counterexample exported for replay" % v.get("clause"))
        if getattr(m, "zero_actions", None):
            ctx.cov["coverage_zero_actions"] = sorted(set(ctx.cov["coverage_zero_actions"]) | set(m.zero_actions))
    ctx.cov["exhaustive"] = ok
    coded = {}
    for dev in unrepaired:
        r = ctx.tlc_must("StateCommit", M_CFG % (6, "val" if dev == "copy" else "macct", fixset([f for f in ALL_FIX if f != dev])),
                         name="M_coded_" + dev, timeout=1500)
        cex = [v for v in r.printed if isinstance(v, dict) and v.get("kind") == "CEX"]
        coded[dev] = r.violated
        if cex:
            behs.append(cex[-1]["h"])
    ctx.cov["design_as_coded"] = coded
    for dev, violated in coded.items():
        if not violated:
            ctx.note("deviation '%s' is present in the code but the as-coded design run found no counterexample" % dev)
    ncex = len(behs)
    # "disk" and "deleg2" start from a seeded state: a prelude of 2 / 5 operations is the beginning of every behaviour
    # "slots", "old", "recs2": a prelude of 3 / 2 / 3 operations executed by the model itself
    gd = ({"acct": 4, "val": 4, "recs": 4, "disk": 2 + 5, "deleg2": 5 + 3, "slots": 3 + 4, "old": 2 + 4, "recs2": 3 + 3, "blind": 3 + 3, "reset": 3 + 4, "lazy": 5 + 3} if quick
          else {"acct": 5, "val": 5, "recs": 5, "disk": 2 + 6, "deleg2": 5 + 4, "slots": 3 + 5, "old": 2 + 5, "recs2": 3 + 5, "blind": 3 + 5, "reset": 3 + 5, "lazy": 5 + 4})
    for alpha, d in gd.items():
        g = ctx.tlc_must("StateCommit", G_CFG % (d, alpha, fixset(fix_now)), name="G1_%s_%d" % (alpha, d), timeout=2400)
        behs += [v["h"] for v in g.printed if isinstance(v, dict) and v.get("kind") == "B"]
    n1 = len(behs)
    depth = 20 if quick else 28
    num = 150 if quick else 1200
    g2 = ctx.tlc_must("StateCommit", G_CFG % (depth, "rich", fixset(fix_now)), name="G2_simulate", timeout=2400,
                      simulate={"num": num}, depth=depth + 1)
    sim = [v["h"] for v in g2.printed if isinstance(v, dict) and v.get("kind") == "B"]
    random.Random(ctx.seed).shuffle(sim)
    behs += sim[:(400 if quick else 4000)]
    ctx.note("behaviours: %d design counterexamples, %d bounded-exhaustive, %d simulated" % (ncex, n1 - ncex, len(behs) - n1))
    return behs, coded


def selftest(ctx, trace, fix):
    """Binding self-test: (1) a corrupted live dump must be rejected by the conformance spec at that line; (2) a corrupted
    root must be flagged by the monitor (SameContentSameRoots or ReopenEqualsLive)."""
    ev = vlib.read_ndjson(trace)
    bad = None
    for i, e in enumerate(ev):
        if e.get("ev") == "Commit" and "live" in e and not e["live"][7] and i > 50:
            bad = i + 1
            break
    if bad is None:
        return
    ev1 = json.loads(json.dumps(ev[:bad + 3]))
    ev1[bad - 1]["live"][0][0][0] += 1          # balance of account 1 in the live dump
    p = ctx.path("trace_corrupt1.ndjson")
    vlib.write_ndjson(p, ev1)
    conf = ctx.tlc("StateCommit_Trace", "StateCommit_Trace.cfg", name="Conf_selftest", files={"trace.ndjson": p}, workers=1,
                   timeout=600, count=False, xss="512m", constants={"Fix": fixset(fix)})
    rej = [v for v in conf.printed if isinstance(v, dict) and v.get("kind") == "REJECTED"]
    ok1 = bool(rej) and rej[0]["line"] == bad
    mon = ctx.tlc("StateCommit_Mon", "StateCommit_Mon.cfg", name="Mon_selftest1", files={"trace.ndjson": p}, workers=1, timeout=600,
                  count=False, xss="512m", check_deadlock=False)
    res = [v for v in mon.printed if isinstance(v, dict) and v.get("kind") == "RESULT"]
    ok2 = bool(res) and any(it[0] == "ReopenEqualsLive" and it[2] == bad for it in res[0].get("viol", []))
    ev2 = json.loads(json.dumps(ev[:bad + 3]))
    ev2[bad - 1]["roots"][0] = "deadbeef"
    ev2[bad - 1]["reroots"][0] = "deadbeef"
    # the same content with other roots somewhere earlier: duplicate the event as a second observation
    dup = json.loads(json.dumps(ev[bad - 1]))
    ev2.insert(bad, dup)
    p2 = ctx.path("trace_corrupt2.ndjson")
    vlib.write_ndjson(p2, ev2)
    mon2 = ctx.tlc("StateCommit_Mon", "StateCommit_Mon.cfg", name="Mon_selftest2", files={"trace.ndjson": p2}, workers=1, timeout=600,
                   count=False, xss="512m", check_deadlock=False)
    res2 = [v for v in mon2.printed if isinstance(v, dict) and v.get("kind") == "RESULT"]
    ok3 = bool(res2) and any(it[0] == "SameContentSameRoots" for it in res2[0].get("viol", []))
    ctx.cov["binding_selftest"] = ("corrupted live dump at line %d: conformance rejected at %s, monitor ReopenEqualsLive %s; "
                                   "corrupted root: SameContentSameRoots %s" % (bad, rej[0]["line"] if rej else None,
                                                                                "flagged" if ok2 else "MISSED", "flagged" if ok3 else "MISSED"))
    if not (ok1 and ok2 and ok3):
        raise vlib.Undecided("trace-checker self-test failed: %s" % ctx.cov["binding_selftest"])


def run(ctx):
    ctx.cov["rule"] = ("behaviours = stored witnesses + design counterexamples + every behaviour of the three G1 alphabets to the G1 "
                       "depth (starting with a write) + simulated rich behaviours; non-trivial = at least two writes and a root / "
                       "commit / reload / copy point after the first write; distinct by JSON of the action sequence")
    ctx.assumptions += [
        "content = what the getters show for the fixture's universe (2 accounts: balance, nonce, code, 2 storage slots, delegation "
        "balance and list; 2 validators with the delegation of account 1; statistics; index; withdraw queue as a sequence; "
        "staking records of 4 keys with value and ordered hash list; pending relationships); the reopened state is additionally "
        "enumerated (RawDump, ForEachStakingRecord) so entries outside the universe would show",
        "roots are compared as the first 32 bits of each of the three hashes",
        "every root computation uses deleteEmptyObjects = true (as block processing does); account 1 is funded in a committed "
        "starting state, account 2 starts absent; stake unit 10 LU",
        "ordered content (withdraw queue, hash list of a staking record) is content: different orders are different contents",
        "node database: Flush = TrieDB().Commit(root, false) of the three roots of the last Commit (WriteBlockWithState); "
        "GC = Dereference of older never-flushed roots + Cap(0); Restart = state.New(last flushed roots) over a fresh "
        "state.NewDatabase on the same disk; every Flush is also probed from a fresh cache without disturbing the behaviour",
        "root triples are filed both under the dump taken before the root computation and under the one taken after it; "
        "ReloadOld(k) = state.New(k-th last committed roots, k <= 4) through the same Database as a read-only probe; "
        "AddRecordOther = AddStakingRecord on the most recent frozen object (both sides of a copy go on recording)",
        "every generated Root / Commit / Reload carries the content the model says has been WRITTEN (tag); SameContentSameRoots "
        "also files the real roots under that tag (discriminator 'written'); flag b = 2: no dump before the root computation; "
        "ReadComp(c) reads one lazily loaded component (statistics, validator record/index, withdraw queue, pending "
        "relationships, staking record, delegation list)",
        "blind steps (flag b generated by TLC): CopySwap on a clean object with no dump, immediately followed by Reload "
        "(commit of the never-read copy, reopen) with dumps of the reopened copy only and, afterwards, of the original",
        "copies: the object nobody writes to is dumped again after EVERY later operation and at the end; no Snapshot/Revert here (C09)",
    ]
    unrepaired = detect_unrepaired(ctx)
    behs, coded = generate(ctx, unrepaired)
    for b in behs[:3]:
        ctx.sample(b)
    fix_now = [f for f in ALL_FIX if f not in unrepaired]
    trace = judge(ctx, behs, fix=fix_now)
    if not ctx.quick:
        selftest(ctx, trace, fix_now)
    if ctx.cov.get("design_violation") and not ctx.violations:
        raise vlib.Undecided("the intended design violates %s but the counterexample did not reproduce on the real code: "
                             "specification error" % ctx.cov["design_violation"])
    fired = ctx.cov.get("clauses_fired", {})
    zero = [k for k in ("TagsCompared", "BlindCopies", "OldReopens", "BothSides", "DiskReopens", "Reopens", "CopyEqs", "Indeps", "RootObsN", "RootsCompared") if not fired.get(k)]
    if zero:
        raise vlib.Undecided("vacuous clauses (never evaluated): %s" % zero)


def replay(ctx, path):
    data = json.load(open(path))
    judge(ctx, data["behaviours"], conformance=False)
