"""UconNet -- growth beyond the listed properties (DESIGN.md section 6), run as an extra stage of checks/C03.py.

(A) design(ctx): spec/UconNet.tla, the composition of honest voters, Byzantine senders and a lossy / reordering / duplicating
    network for one round, checked with TLC: Agreement, CommitHasQuorum, HonestNoDoubleVote, PrecommitHasPrevoteQuorum as
    invariants; <>AllHonestCommitted under weak fairness in the synchronous configuration (no state constraint); boundary
    configurations in which Agreement / liveness MUST fail (non-vacuity).  Evidence keys uconnet_design_*.
(B) six_nodes(ctx, tests): the repository's own six-node tests (consensus/ucon TestUcon / TestFork: real timers, goroutines,
    message delays) are run with -tags verif and VERIF_TRACE_FILE set; the verifTrace hooks in voter.go record every
    context change, emitted vote, counted vote, caught double voter, quorum and commit under v.lock.  The per-node event
    sequences are merged using only the per-node sequence numbers and message causality (a vote is emitted before it is
    counted anywhere) -- never the clock -- and spec/UconNet_Mon.tla judges the merged trace.  Only clause failures on
    recorded events are violations; a failing or hanging `go test` alone makes the stage undecided.  Evidence keys uconnet_*.
"""
import json
import os
import subprocess
import time
import vlib

CFG = """SPECIFICATION %(spec)s
CONSTANTS
  Honest = %(Honest)s
  Byz = %(Byz)s
  WSel = "%(WSel)s"
  QNum = %(QNum)d
  Blocks = {"A", "B"}
  MaxI = %(MaxI)d
  Lock = "%(Lock)s"
  ByzMode = "%(ByzMode)s"
  TimerOrder = %(TimerOrder)s
  Sync = %(Sync)s
INVARIANT Agreement
INVARIANT CommitHasQuorum
INVARIANT HonestNoDoubleVote
INVARIANT PrecommitHasPrevoteQuorum
%(prop)s
CHECK_DEADLOCK FALSE
"""


def cfg(**kw):
    d = dict(spec="Spec", Honest="{1, 2, 3}", Byz="{4}", WSel="safe", QNum=685, MaxI=1, Lock="asCoded", ByzMode="help",
             TimerOrder="TRUE", Sync="FALSE", prop="")
    d.update(kw)
    return CFG % d


LIVE = dict(spec="LiveSpec", Sync="TRUE", prop="PROPERTY Live")

# name, constants, expectation: "hold" (must hold), "fail:<what>" (must fail: non-vacuity), "info" (recorded only)
DESIGN_RUNS = [
    ("UN_safe_1index", dict(), "hold"),
    ("UN_safe_2indices_lock_carried", dict(MaxI=2, Lock="carry"), "hold"),
    ("UN_live_sync", dict(MaxI=2, **LIVE), "hold"),
    ("UN_live_sync_lock_carried", dict(MaxI=2, Lock="carry", **LIVE), "hold"),
    ("UN_boundary_byzantine_over_threshold", dict(Honest="{1, 2}", Byz="{3}", WSel="byz", ByzMode="explicit"), "fail:Agreement"),
    ("UN_boundary_disjoint_quorums", dict(Honest="{1, 2, 3, 4}", Byz="{}", WSel="equal", QNum=500), "fail:Agreement"),
    ("UN_boundary_live_honest_below_quorum", dict(Honest="{1, 2}", Byz="{3}", WSel="byz", MaxI=2, **LIVE), "fail:Live"),
    ("UN_as_coded_2indices", dict(MaxI=2), "info"),
]


def design(ctx):
    runs = []
    for name, kw, expect in DESIGN_RUNS:
        holds = expect == "hold"
        r = ctx.tlc("UconNet", cfg(**kw), name=name, timeout=1500, count=holds)
        violated, err = r.violated, r.error
        if err and "Temporal propert" in err and "violated" in err:      # TLC: "Temporal property Live was violated."
            violated, err = "Live", None
        if violated == "TemporalProperty":
            violated = "Live"
        if r.timeout or err:
            raise vlib.Undecided("UconNet design run %s: %s" % (name, err or "timeout"))
        runs.append({"name": name, "distinct": r.distinct, "generated": r.generated, "wall_s": round(r.wall, 1),
                     "expect": expect, "violated": violated})
        if holds and violated:
            raise vlib.Undecided("UconNet design run %s violates %s (design-level only: cannot be replayed on a single real node)" % (name, violated))
        if expect.startswith("fail:") and violated != expect[5:]:
            raise vlib.Undecided("UconNet boundary run %s did not fail %s (got %s): the design check would be vacuous" % (name, expect[5:], violated))
        if expect == "info":
            ctx.cov["uconnet_design_as_coded_2indices"] = (
                "violates %s: a node that precommitted a block at one index prevotes another block at the next one "
                "(setMarkedBlock sets nextVoted only when the next-index vote FAILED, voter.go:688); holds with Lock = carry" % violated
                if violated else "holds")
    ctx.cov["uconnet_design_runs"] = runs
    ctx.cov["uconnet_design_states"] = sum(r["distinct"] for r in runs if r["expect"] == "hold")
    return runs


# ---------------------------------------------------------------------------------------------- six-node traces
def merge(raw):
    """Per-node sequences -> one sequence per test, using per-node order and message causality only."""
    events = vlib.read_ndjson(raw)
    by_vid = {}
    order = []
    for e in events:
        if e["vid"] not in by_vid:
            by_vid[e["vid"]] = []
            order.append(e["vid"])
        by_vid[e["vid"]].append(e)
    # a test that builds new nodes creates new Voter objects for the same addresses: one epoch per test
    epoch_of, seen = {}, {}
    for vid in order:
        node = by_vid[vid][0]["node"]
        epoch_of[vid] = seen.get(node, 0)
        seen[node] = epoch_of[vid] + 1
    out = []
    stats = {"tests": 0, "nodes": 0, "rounds": 0, "commits": 0}
    for ep in sorted(set(epoch_of.values())):
        vids = [v for v in order if epoch_of[v] == ep]
        seqs = {}
        for v in vids:
            s = sorted(by_vid[v], key=lambda e: e["seq"])
            if [e["seq"] for e in s] != list(range(1, len(s) + 1)):
                raise vlib.Undecided("six-node trace: sequence numbers of voter %d are not contiguous" % v)
            seqs[by_vid[v][0]["node"]] = s
        key = lambda e: (e["k"], e["r"], e["i"], e["b"])
        all_votes = {n: {key(e) for e in s if e["ev"] == "vote"} for n, s in seqs.items()}
        emitted = {n: set() for n in seqs}
        pos = {n: 0 for n in seqs}
        out.append({"ev": "reset", "node": 0, "t": ep})
        left = sum(len(s) for s in seqs.values())
        while left:
            progress = False
            for n in sorted(seqs):
                s = seqs[n]
                while pos[n] < len(s):
                    e = s[pos[n]]
                    if e["ev"] == "count" and e["s"] in seqs and key(e) in all_votes[e["s"]] and key(e) not in emitted[e["s"]]:
                        break  # causality: the sender's vote event comes first
                    if e["ev"] == "vote":
                        emitted[n].add(key(e))
                    e = dict(e)
                    e["t"] = ep
                    out.append(e)
                    pos[n] += 1
                    left -= 1
                    progress = True
            if not progress:
                raise vlib.Undecided("six-node trace: causal merge is stuck (a counted vote precedes its emission in every order)")
        stats["tests"] += 1
        stats["nodes"] = max(stats["nodes"], len(seqs))
        stats["rounds"] += max([e.get("r", 0) for s in seqs.values() for e in s] or [0])
        stats["commits"] += sum(1 for s in seqs.values() for e in s if e["ev"] == "commit")
    return out, stats


def six_nodes(ctx, tests, timeout, strict=True):
    """Run the repository's multi-node tests with the hooks on and judge the recorded events.
    strict: a failing/hanging go test without any clause failure makes the stage undecided (else it is only noted)."""
    raw = ctx.path("uconnet_raw.ndjson")
    if os.path.exists(raw):
        os.remove(raw)
    env = vlib.goenv()
    env["VERIF_TRACE_FILE"] = raw
    cmd = ["go", "test", "-tags", "verif", "-vet=off", "-count=1", "-run", "^(%s)$" % "|".join(tests), "./consensus/ucon/"]
    t0 = time.time()
    failure = None
    try:
        p = subprocess.run(cmd, cwd=vlib.REPO, env=env, stdout=subprocess.PIPE, stderr=subprocess.STDOUT, timeout=timeout)
        out = p.stdout.decode("utf-8", "replace")
        if p.returncode != 0:
            failure = "go test exit code %d: %s" % (p.returncode, " | ".join(l for l in out.splitlines() if "FAIL" in l or "--- " in l or "panic" in l)[:500])
    except subprocess.TimeoutExpired as e:
        out = (e.stdout or b"").decode("utf-8", "replace")
        failure = "go test timed out after %ds" % timeout
        subprocess.run(["pkill", "-f", "ucon.test"], check=False)
    wall = time.time() - t0
    with open(ctx.path("uconnet_gotest.log"), "w") as fh:
        fh.write(out)
    vlib.log("six-node tests %s: %.1fs%s" % ("|".join(tests), wall, " FAILED: " + failure if failure else ""))
    ctx.cov["uconnet_tests"] = "|".join(tests)
    ctx.cov["uconnet_go_test_wall_s"] = round(wall, 1)
    ctx.cov["uconnet_go_test"] = failure or "ok"
    nviol = 0
    if os.path.exists(raw) and os.path.getsize(raw) > 0:
        merged, stats = merge(raw)
        trace = ctx.path("uconnet_trace.ndjson")
        vlib.write_ndjson(trace, merged)
        res, nviol = vlib.monitor(ctx, "UconNet_Mon", "UconNet_Mon.cfg", trace, name="UconNet_Mon", timeout=1500, heap="8g")
        ctx.cov["uconnet_events"] = res.get("events", 0)
        ctx.cov["uconnet_clauses_fired"] = res.get("fired")
        ctx.cov["uconnet_nodes"] = stats["nodes"]
        ctx.cov["uconnet_rounds"] = stats["rounds"]
        ctx.cov["uconnet_commits"] = stats["commits"]
        ctx.cov["traces_validated_against_impl"] += stats["tests"]
        fired = res.get("fired") or {}
        if not failure and not nviol:
            for c in ("HonestNoDoubleVote", "PrecommitOnlyAfterPrevoteQuorum", "CommitOnlyAfterQuorums", "CountedVoteWasSent", "Agreement"):
                if not fired.get(c):
                    raise vlib.Undecided("six-node stage: clause %s never fired on the recorded trace" % c)
    elif not failure:
        failure = "no trace was recorded (hooks missing or VERIF_TRACE_FILE ignored)"
    if failure and not nviol:
        if strict:
            raise vlib.Undecided("six-node stage: %s (log: %s)" % (failure, ctx.path("uconnet_gotest.log")))
        ctx.note("six-node stage not judged in this tier: %s" % failure)
        ctx.cov["uconnet_skipped"] = failure
    return nviol
