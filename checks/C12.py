"""C12 -- the protocol version changes only by a quorum of block votes, at the announced round.

M  : spec/VersionUpgrade.tla (+ VersionUpgradeProp.tla), parameter sets chosen in Init from params.json:
     (a) mode "safe": chains built with the property layer's SafeStep satisfy the chain-level statement (ChainStatement);
     (b) BuilderOk: every header BuilderNext derives on a reachable prev is accepted by Verify and is a SafeStep;
     (c) VerifierSafe: Verify => SafeStep on every reachable prev x every candidate curr (fields 0..F);
     confirmed defects are named deviations (known_c12.json) so that TLC searches past them;
     (d) the same with Fixed = TRUE (verifier with the proposed repair) and NO known deviation.
G  : the (b)/(c) run prints one witness chain per distinct reachable header state (GenStates).
T  : the driver `versionupgrade` checks each chain with the REAL VerifyYouVersionState, enumerates the candidate domain of the
     last header through the real verifier, runs the real ProcessYouVersionState under every table, and extends random
     walks over accepted headers; VersionUpgrade_Mon (the verdict) judges every accepted pair, every builder output and
     every chain; VersionUpgrade_Trace (conformance to Verify/BuilderNext) is the drift measure.
Chain level on a REAL core.BlockChain (spec/VersionChain.tla, driver `versionchain`): TLC generates schedules over {import a
     branch segment (reorganisations included), SetHead, query VersionForRound(r) for r in 8..15}; the monitor
     VersionChain_Mon checks ActiveVersionIsCanonical (every answer = CurrVersion of the observed canonical header at
     max(0, r - 8)) and the C12 statement over the observed canonical headers (Canon<Clause>); VersionChain_Trace is the drift
     measure.
"""
import json
import os
import random
import vlib

CFG = """SPECIFICATION Spec
CONSTANTS
  MaxRound = %(maxround)d
  FldMax = %(fldmax)d
  Mode = "%(mode)s"
  Fixed = %(fixed)s
  Tight = %(tight)s
  GenMode = "%(gen)s"
%(invs)s
VIEW %(view)s
CHECK_DEADLOCK FALSE
"""


def all_param_sets():
    ps = []
    for vr in (2, 3):
        for th in (1, 2, 3):
            for minw in (0, 1, 2):
                for maxw in range(minw, 4):
                    ps.append({"vr": vr, "th": th, "minw": minw, "maxw": maxw})
    return ps


# always included: the sets on which the confirmed defects were first seen, a one-vote threshold, and the largest windows
FIXED_SETS = [{"vr": 2, "th": 2, "minw": 1, "maxw": 2}, {"vr": 2, "th": 2, "minw": 0, "maxw": 1},
              {"vr": 2, "th": 1, "minw": 0, "maxw": 0}, {"vr": 3, "th": 3, "minw": 2, "maxw": 3}]


def p4(vr, th, minw, maxw):
    return {"vr": vr, "th": th, "minw": minw, "maxw": maxw}


# parameter sets in which the versions differ (vote rounds, threshold, min/max wait): builder and verifier must both judge by
# the ACTIVE version; the next version lowers / raises the minimum wait, shortens / lengthens the window, ...
MIXED_FIXED = [{"p1": p4(2, 2, 2, 2), "p2": p4(2, 1, 0, 1), "p9": p4(2, 2, 1, 1)},
               {"p1": p4(2, 1, 1, 1), "p2": p4(2, 2, 0, 2), "p9": p4(2, 1, 0, 0)}]


def mixed_param_sets(n, seed):
    rnd = random.Random(1000 + seed)
    allp = all_param_sets()
    out = []
    while len(out) < n:
        a, b, c = rnd.choice(allp), rnd.choice(allp), rnd.choice(allp)
        if a != b:
            out.append({"p1": a, "p2": b, "p9": c})
    return out


def choose_param_sets(ctx):
    allp = all_param_sets()
    if not ctx.quick:
        return allp + MIXED_FIXED + mixed_param_sets(8, 0)
    rest = [p for p in allp if p not in FIXED_SETS]
    random.Random(ctx.seed).shuffle(rest)
    return FIXED_SETS[:3] + MIXED_FIXED + rest[:1]


def known_for_model(ctx):
    """known signatures of this property as [clause, disc list] records for the TLA+ side (IsKnown)."""
    out = []
    for sig in sorted(ctx.known):
        try:
            _, clause, disc = sig.split("/", 2)
        except ValueError:
            continue
        out.append({"clause": clause, "disc": disc.split("+")})
    return out or [{"clause": "-none-", "disc": ["-"]}]


def tuple_bound(p, quick):
    vs = [p[k] for k in ("p1", "p2", "p9")] if "p1" in p else [p]
    return min(8, max(v["vr"] + v["maxw"] for v in vs) + 3)


def design(ctx, psets):
    """M (a)-(d) and G.  Returns (chains, violated-invariant-or-None)."""
    quick = ctx.quick
    files = {"params.json": json.dumps(psets), "known_c12.json": json.dumps(known_for_model(ctx))}
    # rounds and fields are bounded per parameter set by min(8, vr + maxw + 3): two complete proposal lifetimes
    base = dict(maxround=8, fldmax=8, fixed="FALSE", tight="TRUE", gen="none")
    behs = []
    violated = None
    # (b) + (c) + G
    cfg = CFG % dict(base, mode="verifier", gen="states", invs="INVARIANT VerifierSafe BuilderOk GenStates", view="ViewV")
    m = ctx.tlc_must("VersionUpgrade", cfg, name="M_verifier", files=files, timeout=3000)
    for v in m.printed:
        if isinstance(v, dict) and v.get("kind") == "CEX":
            ch = v["h"]["chain"]
            for c in (ch, ch[:-1]):
                behs.append({"P": v["h"]["P"], "chain": c, "F": 8, "cex": v.get("clause")})
            ctx.note("design-level counterexample for %s exported for replay" % v.get("clause"))
    if m.violated:
        violated = m.violated
        # the search stopped early: generate the reachable states without the invariants
        cfg = CFG % dict(base, mode="verifier", gen="states", invs="INVARIANT GenStates", view="ViewV")
        g = ctx.tlc_must("VersionUpgrade", cfg, name="G_states", files=files, timeout=3000)
    else:
        g = m
    ctx.cov["exhaustive"] = m.ok
    ctx.cov["design_violation"] = m.violated
    pidx = {json.dumps(p, sort_keys=True): p for p in psets}
    for v in g.printed:
        if isinstance(v, dict) and v.get("kind") == "B":
            P = pidx[json.dumps(v["h"]["P"], sort_keys=True)]
            behs.append({"P": P, "chain": v["h"]["chain"], "F": tuple_bound(P, quick)})
    ctx.cov["reachable_header_states"] = g.distinct
    # (a) the envelope: SafeStep chains satisfy the chain-level statement
    cfg = CFG % dict(base, mode="safe", invs="INVARIANT ChainStatement", view="ViewS")
    # (a property-layer self-consistency check, independent of the code: a subset of the sets in the quick tier)
    efiles = files if not quick else dict(files, **{"params.json": json.dumps(FIXED_SETS[:2] + MIXED_FIXED[:1])})
    a = ctx.tlc_must("VersionUpgrade", cfg, name="M_safe_envelope", files=efiles, timeout=3000)
    if a.violated:
        raise vlib.Undecided("the property layer is inconsistent: a SafeStep chain violates the chain-level statement (%s)" % a.dir)
    # (d) the proposed repair removes every deviation (no known list)
    fsets = psets if not quick else FIXED_SETS + MIXED_FIXED[:1]
    ffiles = {"params.json": json.dumps(fsets), "known_c12.json": json.dumps([{"clause": "-none-", "disc": ["-"]}])}
    cfg = CFG % dict(base, mode="verifier", fixed="TRUE", invs="INVARIANT VerifierSafe BuilderOk", view="ViewV")
    f = ctx.tlc_must("VersionUpgrade", cfg, name="M_repaired", files=ffiles, timeout=3000, coverage=not quick)
    if getattr(f, "zero_actions", None):
        ctx.cov["coverage_zero_actions"] = f.zero_actions
    ctx.cov["repaired_design_holds"] = bool(f.ok)
    if not f.ok:
        ctx.note("the design with the proposed repair still has a deviation: %s" % f.violated)
    return behs, violated


def witnesses():
    behs = []
    wdir = os.path.join(vlib.VERIF, "findings")
    for fn in sorted(os.listdir(wdir)) if os.path.isdir(wdir) else []:
        if fn.startswith("C12_") and fn.endswith(".json"):
            behs += json.load(open(os.path.join(wdir, fn)))["behaviours"]
    return behs


def nontrivial(b):
    """a chain is non-trivial when its last header carries a live proposal; a walk always is."""
    if b.get("walk"):
        return True
    ch = b.get("chain") or []
    return bool(ch) and ch[-1][1] != 0


def judge(ctx, behs, conformance=True):
    bpath = ctx.path("behaviours.ndjson")
    vlib.write_ndjson(bpath, behs)
    trace = ctx.path("trace.ndjson")
    info = ctx.drive("versionupgrade", trace, behaviours=bpath, opts={"fullevery": 25 if ctx.quick else 50})
    ctx.cov["traces_validated_against_impl"] += len(behs)
    ctx.cov["distinct_nontrivial"] += len({json.dumps(b, sort_keys=True) for b in behs if nontrivial(b)})
    calls = acc = 0
    with open(trace) as fh:
        for line in fh:
            if '"ev":"explore"' in line:
                e = json.loads(line)
                calls += e.get("ncand", 0) + 2 * e.get("nbuild", 0) + e.get("okn", 0)
                acc += len(e.get("acc", []))
            elif '"ev":"step"' in line:
                calls += 1
    ctx.cov["evaluations"] += calls
    ctx.cov["accepted_pairs_judged"] = ctx.cov.get("accepted_pairs_judged", 0) + acc
    for a in info["aborts"]:
        ctx.note("driver aborted in behaviour %s: %s" % (a["b"], a["msg"]))
    # T (verdict)
    result, _ = vlib.monitor(ctx, "VersionUpgrade_Mon", "VersionUpgrade_Mon.cfg", trace, behaviours=bpath,
                             replay_meta={"driver": "versionupgrade"}, timeout=2400, heap="8g")
    if conformance:
        conf = ctx.tlc("VersionUpgrade_Trace", "VersionUpgrade_Trace.cfg", name="Conf", files={"trace.ndjson": trace},
                       workers=1, timeout=2400, count=False, xss="256m")
        accd = [v for v in conf.printed if isinstance(v, dict) and v.get("kind") == "ACCEPTED"]
        rej = [v for v in conf.printed if isinstance(v, dict) and v.get("kind") == "REJECTED"]
        if accd:
            ctx.cov["conformance"] = "accepted %d events" % accd[0]["events"]
        else:
            ctx.cov["drift_events"] += 1
            ctx.cov["conformance"] = "rejected: %s" % (json.dumps(rej[0])[:600] if rej else (conf.error or conf.violated or "no verdict"))
            print("DRIFT: property=C12 the real verifier/builder left the design layer of VersionUpgradeProp.tla: %s"
                  % ctx.cov["conformance"], flush=True)
    return trace, result


def selftest(ctx, trace):
    """Binding self-test: dropping one accepted candidate from a fully re-enumerated event must make the conformance spec
    reject exactly there; adding an approval to a recorded accepted header must make the monitor report it."""
    ev = vlib.read_ndjson(trace)
    bad = None
    for i, e in enumerate(ev):
        if e.get("ev") == "explore" and e.get("full") == 1 and len(e.get("acc", [])) > 2:
            e["acc"] = e["acc"][1:]
            bad = i + 1
            break
    if bad is None:
        raise vlib.Undecided("self-test: no fully enumerated event in the trace")
    p = ctx.path("trace_corrupt.ndjson")
    vlib.write_ndjson(p, ev[:bad + 3])
    conf = ctx.tlc("VersionUpgrade_Trace", "VersionUpgrade_Trace.cfg", name="Conf_selftest", files={"trace.ndjson": p},
                   workers=1, timeout=600, count=False, xss="256m")
    rej = [v for v in conf.printed if isinstance(v, dict) and v.get("kind") == "REJECTED"]
    ok = bool(rej) and rej[0]["line"] == bad
    ctx.cov["binding_selftest"] = "dropped accepted candidate at line %d: conformance rejected at line %s" % (
        bad, rej[0]["line"] if rej else None)
    if not ok:
        raise vlib.Undecided("trace-checker self-test failed: corrupted event not rejected")


# ---------------------------------------------------------------------------- chain level (real core.BlockChain)
VC_CFG = """SPECIFICATION Spec
CONSTANTS
  MaxActs = %(acts)d
  FixParent = %(fix)s
  AutoQuery = %(auto)s
  GenMode = "%(gen)s"
%(invs)s
VIEW %(view)s
CHECK_DEADLOCK FALSE
"""


# "TRUE" since /repo commit 8a32233 (the first block of a segment is verified against its real parent); "FALSE" = as coded before
FIX_PARENT = "TRUE"


def chain_witnesses():
    behs = []
    wdir = os.path.join(vlib.VERIF, "findings")
    for fn in sorted(os.listdir(wdir)) if os.path.isdir(wdir) else []:
        if fn.startswith("C12v_") and fn.endswith(".json"):
            behs += json.load(open(os.path.join(wdir, fn)))["behaviours"]
    return behs


def sched(h):
    """TLC history record -> driver action"""
    out = []
    for a in h:
        if a["a"] == "import":
            out.append({"a": "import", "seg": list(a["seg"])})
        elif a["a"] == "sethead":
            out.append({"a": "sethead", "n": a["n"]})
        else:
            out.append({"a": "query"})
    return out


def chain_generate(ctx):
    quick = ctx.quick
    files = {"known_c12.json": json.dumps(known_for_model(ctx))}
    behs = chain_witnesses()
    nw = len(behs)
    # M: design level, schedules with explicit queries
    cfg = VC_CFG % dict(acts=4 if quick else 6, fix=FIX_PARENT, auto="FALSE", gen="none",
                        invs="INVARIANT ActiveVersionIsCanonical CanonChainSafe", view="View")
    m = ctx.tlc_must("VersionChain", cfg, name="M_chain", files=files, timeout=1500)
    for v in m.printed:
        if isinstance(v, dict) and v.get("kind") == "CEX":
            behs.append(sched(v["h"]) + [{"a": "query"}])
            ctx.note("chain level: design counterexample for %s %s exported for replay" % (v.get("clause"), v.get("disc")))
    # the proposed repair (first block checked against its real parent) has no deviation
    cfg = VC_CFG % dict(acts=4 if quick else 6, fix="TRUE", auto="FALSE", gen="none",
                        invs="INVARIANT ActiveVersionIsCanonical CanonChainSafe", view="View")
    if not quick:
        f = ctx.tlc_must("VersionChain", cfg, name="M_chain_repaired", timeout=1500,
                         files={"known_c12.json": json.dumps([{"clause": "-none-", "disc": ["-"]}])})
        ctx.cov["chain_repaired_design_holds"] = bool(f.ok)
    # G1: one witness schedule per distinct reachable transition (the driver queries after every action)
    cfg = VC_CFG % dict(acts=5 if quick else 8, fix=FIX_PARENT, auto="TRUE", gen="transitions",
                        invs="INVARIANT GenTransitions", view="ViewG")
    g1 = ctx.tlc_must("VersionChain", cfg, name="G1_chain_transitions", files=files, timeout=1500, workers=1)
    tr = [sched(v["h"]) for v in g1.printed if isinstance(v, dict) and v.get("kind") == "B"]
    # G2: random schedules with TLC-scheduled queries
    cfg = (VC_CFG % dict(acts=8, fix=FIX_PARENT, auto="FALSE", gen="leaf", invs="CONSTRAINT Leaf", view="View")).replace("VIEW View\n", "")
    g2 = ctx.tlc_must("VersionChain", cfg, name="G2_chain_simulate", files=files, timeout=1500,
                      simulate={"num": 100 if quick else 1500}, depth=9)
    sim = [json.loads(x) for x in sorted({json.dumps(sched(v["h"])) for v in g2.printed if isinstance(v, dict) and v.get("kind") == "B"})]
    random.Random(ctx.seed).shuffle(sim)
    sim = sim[:(100 if quick else 1500)]
    # probes: adversarial single headers chosen by TLC on parents of every kind of version state (what the pure verifier model
    # rejects, and what it accepts); each becomes a real block offered to InsertChain
    cfg = VC_CFG % dict(acts=0, fix=FIX_PARENT, auto="TRUE", gen="probes", invs="INVARIANT GenProbes", view="View")
    gp = ctx.tlc_must("VersionChain", cfg, name="G_chain_probes", files=files, timeout=1500, workers=1)
    probes = []
    for v in gp.printed:
        if isinstance(v, dict) and v.get("kind") == "PROBES":
            for pr in sorted(v["h"], key=lambda x: x["p"]):
                cands = sorted(pr["rej"]) + sorted(pr["acc"])
                if quick:
                    # every accepted header, every rejected header that differs from the parent's fields in at most one field
                    # (the copy included), and a seeded sample of the other rejected ones
                    near = [c for c in sorted(pr["rej"]) if sum(1 for a, b in zip(c, pr["pv"]) if a != b) <= 1]
                    far = [c for c in sorted(pr["rej"]) if c not in near]
                    random.Random(ctx.seed).shuffle(far)
                    cands = near + far[:220] + sorted(pr["acc"])
                probes.append({"probe": pr["p"], "cands": cands, "nrej": len(pr["rej"]), "nacc": len(pr["acc"])})
    ctx.note("chain level: %d witnesses/cex, %d transition schedules, %d simulated schedules, %d probe parents (%d headers)" % (
        len(behs), len(tr), len(sim), len(probes), sum(len(x["cands"]) for x in probes)))
    return behs + tr + sim + probes, m.violated


def chain_judge(ctx, behs, conformance=True):
    bpath = ctx.path("chain_behaviours.ndjson")
    vlib.write_ndjson(bpath, behs)
    trace = ctx.path("chain_trace.ndjson")
    info = ctx.drive("versionchain", trace, behaviours=bpath, opts={"autoquery": 1})
    ctx.cov["traces_validated_against_impl"] += len(behs)
    ctx.cov["chain_schedules"] = ctx.cov.get("chain_schedules", 0) + len(behs)
    n = 0
    with open(trace) as fh:
        for line in fh:
            if '"ev":"query"' in line:
                n += 8
            elif '"ev":"probe"' in line:
                n += 2 * line.count("],[")
    ctx.cov["evaluations"] += n
    ctx.cov["distinct_nontrivial"] += len({json.dumps(b, sort_keys=True) for b in behs
                                           if isinstance(b, dict) or sum(1 for a in b if a["a"] != "query") >= 2})
    for a in info["aborts"]:
        ctx.note("chain level: driver aborted in schedule %s: %s" % (a["b"], a["msg"]))
    result, _ = vlib.monitor(ctx, "VersionChain_Mon", "VersionChain_Mon.cfg", trace, behaviours=bpath, name="VersionChain_Mon",
                             replay_meta={"driver": "versionchain"}, timeout=1500)
    if conformance:
        # the code may follow the design as coded (first block checked against the canonical block) or the repaired one
        verdicts = []
        designs = [("FALSE", "as coded before fix 8a32233 (first block of a segment checked against the canonical block)"),
                   ("TRUE", "repaired (first block checked against its real parent)")]
        if FIX_PARENT == "TRUE":
            designs.reverse()
        for fix, label in designs:
            cfgt = open(os.path.join(vlib.SPEC, "VersionChain_Trace.cfg")).read().replace("FixParent = FALSE", "FixParent = " + fix)
            conf = ctx.tlc("VersionChain_Trace", cfgt, name="Conf_chain_" + fix.lower(), workers=1, timeout=1500, count=False,
                           xss="256m", files={"trace.ndjson": trace, "known_c12.json": json.dumps(known_for_model(ctx))})
            accd = [v for v in conf.printed if isinstance(v, dict) and v.get("kind") == "ACCEPTED"]
            rej = [v for v in conf.printed if isinstance(v, dict) and v.get("kind") == "REJECTED"]
            if accd:
                ctx.cov["chain_conformance"] = "accepted %d events; the code follows the design %s" % (accd[0]["events"], label)
                break
            verdicts.append(json.dumps(rej[0])[:400] if rej else (conf.error or conf.violated or "no verdict"))
        else:
            ctx.cov["drift_events"] += 1
            ctx.cov["chain_conformance"] = "rejected by both designs: %s" % " | ".join(verdicts)
            print("DRIFT: property=C12 the real BlockChain left the design layer of VersionChain.tla: %s" % ctx.cov["chain_conformance"],
                  flush=True)
    return trace, result


def chain_selftest(ctx, trace):
    """a falsified answer must be reported by the monitor and rejected by the conformance spec at that line"""
    ev = vlib.read_ndjson(trace)
    bad = None
    for i, e in enumerate(ev):
        if e.get("ev") == "query" and e["obs"]["hn"] >= 4 and e["ans"][4] != 0:
            e["ans"][4] = 11 - e["ans"][4]      # 5 <-> 6
            bad = i + 1
            break
    if bad is None:
        raise vlib.Undecided("chain self-test: no suitable query event")
    p = ctx.path("chain_trace_corrupt.ndjson")
    start = max(j for j in range(bad) if ev[j].get("ev") == "reset")
    vlib.write_ndjson(p, ev[start:bad])
    line = bad - start
    conf = ctx.tlc("VersionChain_Trace", "VersionChain_Trace.cfg", name="Conf_chain_selftest", workers=1, timeout=600, count=False,
                   xss="256m", files={"trace.ndjson": p, "known_c12.json": json.dumps(known_for_model(ctx))})
    rej = [v for v in conf.printed if isinstance(v, dict) and v.get("kind") == "REJECTED"]
    mon = ctx.tlc("VersionChain_Mon", "VersionChain_Mon.cfg", name="Mon_chain_selftest", files={"trace.ndjson": p, "known.json": "[]"},
                  workers=1, timeout=600, count=False, xss="256m", check_deadlock=False)
    res = [v for v in mon.printed if isinstance(v, dict) and v.get("kind") == "RESULT"]
    seen = bool(res) and any(v[0] == "ActiveVersionIsCanonical" and v[2] == line for v in res[0]["viol"])
    ok = bool(rej) and rej[0]["line"] == line and seen
    ctx.cov["chain_binding_selftest"] = "falsified answer at line %d: conformance rejected at %s, monitor reported: %s" % (
        line, rej[0]["line"] if rej else None, seen)
    if not ok:
        raise vlib.Undecided("chain-level trace-checker self-test failed")


def chain_level(ctx):
    behs, violated = chain_generate(ctx)
    ctx.sample(behs[0])
    trace, result = chain_judge(ctx, behs)
    fired = result.get("fired") or {}
    zero = [k for k, v in fired.items() if not v]
    if zero:
        raise vlib.Undecided("chain level: vacuous monitor antecedents: %s" % zero)
    if not ctx.quick:
        chain_selftest(ctx, trace)
    return violated


def run(ctx):
    ctx.cov["rule"] = ("behaviours = stored witnesses + design counterexamples + one witness chain per distinct reachable header "
                       "state of the design model (every parameter set of the tier) + one random walk per parameter set; for each "
                       "chain the whole candidate domain (3 versions x 4 next versions x (F+1)^3) goes through the real verifier; "
                       "non-trivial = the explored header carries a live proposal, or a walk; distinct by JSON")
    ctx.assumptions += ["versions {1,2,9}, ApprovedUpgradeVersion 1->2->9; parameter sets either give every version the same four "
                        "upgrade parameters or one quadruple per version (mixed sets); the clauses use the ACTIVE version's",
                        "curr.Number = prev.Number + 1 (checked elsewhere by header verification)",
                        "a node whose table lacks the version being switched to halts (logging.Crit); that is neither acceptance "
                        "nor rejection of a builder's header",
                        "vote rounds in {2,3}, threshold in {1,2,3}, min wait in {0,1,2}, max wait in {min..3}; header fields in 0..8 "
                        "for exhaustive exploration, unbounded rounds in the walks"]
    ctx.assumptions += ["chain level: solo engine, versions {5,6} with vote rounds 2 / threshold 2 / min wait 1 / max wait 2, "
                        "protocolRoundBack = 8 is a constant of the code (not scaled): rounds 8..15 look back at heights 0..7; "
                        "reorganisations only onto chains that are not shorter (as production does)"]
    chain_violated = chain_level(ctx)
    psets = choose_param_sets(ctx)
    ctx.cov["parameter_sets"] = len(psets)
    gen, violated = design(ctx, psets)
    violated = violated or chain_violated
    w = witnesses()
    walks = []
    n = 1200 if ctx.quick else 1500
    for i, P in enumerate(psets):
        walks.append({"P": P, "walk": n, "wseed": i + 1})
    behs = w + gen + walks
    ctx.note("behaviours: %d witnesses, %d chains from TLC, %d walks of %d steps" % (len(w), len(gen), len(walks), n))
    for b in (w[:1] + gen[-2:] + walks[:1]):
        ctx.sample(b)
    trace, result = judge(ctx, behs)
    fired = result.get("fired") or {}
    zero = [k for k, v in fired.items() if not v]
    if zero:
        raise vlib.Undecided("vacuous monitor antecedents: %s" % zero)
    if not ctx.quick:
        selftest(ctx, trace)
    if violated and not ctx.violations:
        raise vlib.Undecided("design-level counterexample (%s) did not reproduce on the real code: specification drift" % violated)


def replay(ctx, path):
    data = json.load(open(path))
    chain = [b for b in data["behaviours"] if isinstance(b, list) or "probe" in b]
    pairs = [b for b in data["behaviours"] if isinstance(b, dict) and "probe" not in b]
    if chain:
        chain_judge(ctx, chain, conformance=False)
    if pairs:
        judge(ctx, pairs, conformance=False)
